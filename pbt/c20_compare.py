"""Own recursive comparator for the C20 round-trip oracle (DESIGN.md sec. 2, C20).

Never calls pandapower.toolbox.nets_equal / JSONSerializableClass.__eq__ / DataFrame.equals on objects of the
code under test; everything is compared cell by cell with explicit rules:

* mode "exact"  : values identical (NaN == NaN, all nulls of an object column are one value)
* mode "json"   : floats within |a-b| <= 1e-14 * max(1, |a|), everything else identical
* mode "lossy"  : Excel / SQLite - dtype ignored, numbers compared as floats with the JSON bound (objects are
                  stored as JSON text, Excel numbers as decimal text), nulls of any kind are one value, bool == 0/1

A difference is a dict {"kind", "where", "cls", "a", "b"}; `cls` classifies the root cause from the two values.
"""
import datetime
import math
import numbers

import numpy as np
import pandas as pd

JSON_TOL = 1e-14


def is_null(v):
    if v is None or v is pd.NA or v is pd.NaT:
        return True
    if isinstance(v, (float, np.floating)):
        return math.isnan(v)
    return False


def _is_num(v):
    return isinstance(v, (numbers.Number, np.number)) and not isinstance(v, (bool, np.bool_))


def _is_bool(v):
    return isinstance(v, (bool, np.bool_))


def tname(v):
    if is_null(v):
        return "null"
    if _is_bool(v):
        return "bool"
    if isinstance(v, (int, np.integer)):
        return "int"
    if isinstance(v, (float, np.floating)):
        if math.isinf(v):
            return "inf"
        return "float"
    if isinstance(v, str):
        return "str"
    if isinstance(v, (pd.Timestamp, datetime.datetime, np.datetime64)):
        return "datetime"
    return type(v).__name__


def float_close(a, b, mode):
    a, b = float(a), float(b)
    if math.isnan(a) or math.isnan(b):
        return math.isnan(a) and math.isnan(b)
    if math.isinf(a) or math.isinf(b):
        return a == b
    if mode == "exact":
        return a == b
    # "json" and "lossy" (Excel / SQLite write controller objects as JSON text and numbers as decimal text)
    return abs(a - b) <= JSON_TOL * max(1.0, abs(a))


def value_cls(a, b):
    ta, tb = tname(a), tname(b)
    if ta == "float" and tb == "float":
        return "float-precision" + ("-tiny" if abs(float(a)) < 1e-15 else "")
    if ta == tb:
        return ta
    return "%s->%s" % (ta, tb)


class Diffs(list):
    def add(self, kind, where, cls, a=None, b=None):
        self.append({"kind": kind, "where": where, "cls": cls, "a": _short(a), "b": _short(b)})


def _short(v):
    try:
        r = repr(v)
    except Exception:
        r = "<%s>" % type(v).__name__
    return r if len(r) <= 160 else r[:157] + "..."


# ---------------------------------------------------------------------------------------------------------
# scalar / container values

def cmp_value(a, b, where, mode, out, depth=0):
    """recursive comparison of two python values"""
    if depth > 12:
        return
    if isinstance(a, pd.DataFrame) or isinstance(b, pd.DataFrame):
        if not (isinstance(a, pd.DataFrame) and isinstance(b, pd.DataFrame)):
            out.add("type", where, "%s->%s" % (type(a).__name__, type(b).__name__), a, b)
            return
        cmp_frame(a, b, where, mode, out, depth=depth + 1)
        return
    if isinstance(a, pd.Series) or isinstance(b, pd.Series):
        if not (isinstance(a, pd.Series) and isinstance(b, pd.Series)):
            out.add("type", where, "%s->%s" % (type(a).__name__, type(b).__name__), a, b)
            return
        cmp_frame(a.to_frame("v"), b.to_frame("v"), where, mode, out, depth=depth + 1)
        return
    if isinstance(a, pd.Index) or isinstance(b, pd.Index):
        if not (isinstance(a, pd.Index) and isinstance(b, pd.Index)):
            out.add("type", where, "%s->%s" % (type(a).__name__, type(b).__name__), a, b)
            return
        cmp_value(list(a), list(b), where, mode, out, depth + 1)
        return
    if isinstance(a, np.ndarray) or isinstance(b, np.ndarray):
        if not (isinstance(a, np.ndarray) and isinstance(b, np.ndarray)):
            if mode == "lossy" and isinstance(a, (np.ndarray, list)) and isinstance(b, (np.ndarray, list)):
                pass
            else:
                out.add("type", where, "%s->%s" % (type(a).__name__, type(b).__name__), a, b)
                return
        elif a.shape != b.shape:
            out.add("value", where, "ndarray-shape", a.shape, b.shape)
            return
        elif mode != "lossy" and a.dtype != b.dtype:
            out.add("dtype", where, "ndarray:%s->%s" % (a.dtype, b.dtype), a, b)
            return
        la, lb = list(np.asarray(a).ravel()), list(np.asarray(b).ravel())
        if len(la) != len(lb):
            out.add("value", where, "len", len(la), len(lb))
            return
        for i, (x, y) in enumerate(zip(la, lb)):
            cmp_value(x, y, "%s[%d]" % (where, i), mode, out, depth + 1)
        return
    if isinstance(a, dict) or isinstance(b, dict):
        if not (isinstance(a, dict) and isinstance(b, dict)):
            out.add("type", where, "%s->%s" % (tname(a), tname(b)), a, b)
            return
        ka, kb = list(a.keys()), list(b.keys())
        if set(map(_key, ka)) != set(map(_key, kb)):
            miss = [k for k in ka if _key(k) not in set(map(_key, kb))]
            extra = [k for k in kb if _key(k) not in set(map(_key, ka))]
            out.add("keys", where, "dict-keys", miss[:6], extra[:6])
        bmap = {_key(k): v for k, v in b.items()}
        for k, v in a.items():
            if _key(k) in bmap:
                cmp_value(v, bmap[_key(k)], "%s[%r]" % (where, k), mode, out, depth + 1)
        return
    if isinstance(a, (list, tuple, set, frozenset)) or isinstance(b, (list, tuple, set, frozenset)):
        if type(a) is not type(b) and not (mode == "lossy" and isinstance(a, (list, tuple)) and isinstance(b, (list, tuple))):
            out.add("type", where, "%s->%s" % (tname(a), tname(b)), a, b)
            return
        if isinstance(a, (set, frozenset)):
            la, lb = sorted(a, key=repr), sorted(b, key=repr)
        else:
            la, lb = list(a), list(b)
        if len(la) != len(lb):
            out.add("value", where, "len", a, b)
            return
        for i, (x, y) in enumerate(zip(la, lb)):
            cmp_value(x, y, "%s[%d]" % (where, i), mode, out, depth + 1)
        return
    cmp_scalar(a, b, where, mode, out, depth)


def _key(k):
    return (type(k).__name__ if not isinstance(k, (np.integer,)) else "int", k)


def cmp_scalar(a, b, where, mode, out, depth=0):
    na, nb = is_null(a), is_null(b)
    if na or nb:
        if na and nb:
            return
        out.add("value", where, value_cls(a, b), a, b)
        return
    if _is_bool(a) or _is_bool(b):
        if _is_bool(a) and _is_bool(b):
            if bool(a) != bool(b):
                out.add("value", where, "bool", a, b)
            return
        if mode == "lossy" and (_is_num(a) or _is_num(b)):
            if float(a) != float(b):
                out.add("value", where, value_cls(a, b), a, b)
            return
        out.add("value", where, value_cls(a, b), a, b)
        return
    if _is_num(a) and _is_num(b):
        if isinstance(a, (complex, np.complexfloating)) or isinstance(b, (complex, np.complexfloating)):
            if complex(a) != complex(b):
                out.add("value", where, "complex", a, b)
            return
        fa = isinstance(a, (float, np.floating))
        fb = isinstance(b, (float, np.floating))
        if mode != "lossy" and fa != fb:
            out.add("value", where, value_cls(a, b), a, b)
            return
        if fa or fb:
            if not float_close(a, b, mode):
                out.add("value", where, value_cls(float(a), float(b)), a, b)
        elif int(a) != int(b):
            out.add("value", where, "int", a, b)
        return
    if isinstance(a, str) or isinstance(b, str):
        if not (isinstance(a, str) and isinstance(b, str)) or a != b:
            out.add("value", where, value_cls(a, b), a, b)
        return
    if isinstance(a, (pd.Timestamp, datetime.datetime, np.datetime64)) or \
            isinstance(b, (pd.Timestamp, datetime.datetime, np.datetime64)):
        try:
            same = pd.Timestamp(a) == pd.Timestamp(b)
        except Exception:
            same = False
        if not same:
            out.add("value", where, value_cls(a, b), a, b)
        return
    if callable(a) and callable(b) and not hasattr(a, "__dict__"):
        if getattr(a, "__qualname__", repr(a)) != getattr(b, "__qualname__", repr(b)):
            out.add("value", where, "callable", a, b)
        return
    if hasattr(a, "__dict__") or hasattr(b, "__dict__"):
        if type(a).__name__ != type(b).__name__ or type(a).__module__ != type(b).__module__:
            out.add("type", where, "%s->%s" % (type(a).__name__, type(b).__name__), a, b)
            return
        if callable(a) and not isinstance(a, type) and hasattr(a, "__qualname__"):
            if a.__qualname__ != getattr(b, "__qualname__", None):
                out.add("value", where, "callable", a, b)
            return
        cmp_value(_obj_dict(a), _obj_dict(b), where + "." + type(a).__name__, mode, out, depth + 1)
        return
    try:
        same = bool(a == b)
    except Exception:
        same = repr(a) == repr(b)
    if not same:
        out.add("value", where, value_cls(a, b), a, b)


def _obj_dict(o):
    d = dict(getattr(o, "__dict__", {}))
    # DFData etc. hold plain attributes; weak references / nets are never part of the persisted state
    return {k: v for k, v in d.items() if k not in ("net",)}


# ---------------------------------------------------------------------------------------------------------
# frames

def _index_list(ix):
    return [tuple(x) if isinstance(x, tuple) else x for x in ix.tolist()]


def cmp_frame(a, b, where, mode, out, depth=0, allow_sorted=True, skip_null_columns=False):
    """index (values, dtype, name), columns (order, dtype), values"""
    ia, ib = _index_list(a.index), _index_list(b.index)
    if ia != ib:
        ok = False
        if sorted(map(repr, ia)) == sorted(map(repr, ib)) and len(set(map(repr, ia))) == len(ia):
            # to_json / from_json document that rows may come back in ascending index order
            try:
                if allow_sorted and ib == sorted(ia):
                    a = a.loc[ib]
                    ok = True
                elif mode == "lossy":
                    a = a.loc[ib]
                    ok = True
            except Exception:
                ok = False
            if not ok:
                out.add("index", where, "row-order", ia[:8], ib[:8])
                return
        else:
            ta = {tname(x) for x in ia}
            tb = {tname(x) for x in ib}
            cls = "labels" if ta == tb else "label-type:%s->%s" % ("+".join(sorted(ta)), "+".join(sorted(tb)))
            if len(ia) != len(ib):
                cls = "rows-lost" if len(ib) < len(ia) else "rows-added"
            out.add("index", where, cls, ia[:8], ib[:8])
            return
    if mode != "lossy":
        if str(a.index.dtype) != str(b.index.dtype):
            out.add("index", where, "dtype:%s->%s%s" % (a.index.dtype, b.index.dtype, "(empty)" if not len(a) else ""),
                    a.index.dtype, b.index.dtype)
        if list(a.index.names) != list(b.index.names):
            out.add("index", where, "name", list(a.index.names), list(b.index.names))
    ca, cb = list(a.columns), list(b.columns)
    if mode == "lossy":
        for c in ca:
            if c not in cb:
                if skip_null_columns and all(is_null(v) for v in a[c].tolist()):
                    continue
                out.add("columns", where, "column-lost", c, cb[:12])
        cols = [c for c in ca if c in cb]
    else:
        if ca != cb:
            if sorted(map(repr, ca)) == sorted(map(repr, cb)):
                out.add("columns", where, "column-order", ca, cb)
            else:
                miss = [c for c in ca if c not in cb]
                extra = [c for c in cb if c not in ca]
                ty = ""
                if miss and extra and [str(c) for c in miss] == [str(c) for c in extra]:
                    ty = "-label-type"
                out.add("columns", where, "column-set" + ty + ("(empty)" if not len(a) else ""), miss[:8], extra[:8])
        cols = [c for c in ca if c in cb]
        if getattr(a.columns, "name", None) != getattr(b.columns, "name", None):
            out.add("columns", where, "columns-name", a.columns.name, b.columns.name)
    for c in cols:
        sa, sb = a[c], b[c]
        if isinstance(sa, pd.DataFrame) or isinstance(sb, pd.DataFrame):
            out.add("columns", where, "duplicate-column", c, None)
            continue
        w = "%s.%s" % (where, c)
        cell_mode = mode
        if mode != "lossy" and str(sa.dtype) != str(sb.dtype):
            out.add("dtype", w, "%s->%s%s" % (sa.dtype, sb.dtype, "(empty)" if not len(a) else ""), sa.dtype, sb.dtype)
            if not len(a):
                continue
            cell_mode = "lossy"     # the dtype change is reported once; the cells are compared by value only
        if mode != "lossy" and isinstance(sa.dtype, pd.CategoricalDtype) and isinstance(sb.dtype, pd.CategoricalDtype):
            if list(sa.dtype.categories) != list(sb.dtype.categories) or sa.dtype.ordered != sb.dtype.ordered:
                out.add("dtype", w, "categories", list(sa.dtype.categories), list(sb.dtype.categories))
        if _fast_equal(sa, sb, cell_mode):
            continue
        va, vb = sa.tolist(), sb.tolist()
        n = 0
        for i, (x, y) in enumerate(zip(va, vb)):
            before = len(out)
            cmp_value(x, y, "%s[%r]" % (w, a.index[i]), cell_mode, out, depth + 1)
            if len(out) > before:
                n += 1
                if n >= 3:
                    break


def _fast_equal(sa, sb, mode):
    """vectorised pre-check for plain numpy bool/int/float columns of equal dtype (same rules as cmp_scalar);
    False only means 'look cell by cell'"""
    da, db = sa.dtype, sb.dtype
    if not (isinstance(da, np.dtype) and isinstance(db, np.dtype)) or da != db or da.kind not in "fiub":
        return False
    x, y = sa.values, sb.values
    if x.shape != y.shape:
        return False
    if not len(x):
        return True
    if da.kind != "f":
        return bool((x == y).all())
    with np.errstate(all="ignore"):
        ok = (x == y) | (np.isnan(x) & np.isnan(y))
        if mode != "exact":
            ok |= np.isfinite(x) & np.isfinite(y) & (np.abs(x - y) <= JSON_TOL * np.maximum(1.0, np.abs(x)))
    return bool(ok.all())


# ---------------------------------------------------------------------------------------------------------
# whole nets

def public_keys(net):
    return [k for k in net.keys() if not str(k).startswith("_")]


def cmp_net(a, b, mode, out, skip_tables=()):
    """a = original, b = loaded; JSON and pickle: everything not starting with '_'"""
    ka, kb = public_keys(a), public_keys(b)
    miss = [k for k in ka if k not in kb]
    extra = [k for k in kb if k not in ka]
    for k in miss:
        out.add("keys", "net", "key-lost:%s" % _keyclass(k, a[k]), k, None)
    for k in extra:
        out.add("keys", "net", "key-added:%s" % _keyclass(k, b[k]), None, k)
    for k in ka:
        if k in miss or k in skip_tables:
            continue
        cmp_value(a[k], b[k], k, mode, out)


def _keyclass(k, v):
    if isinstance(v, pd.DataFrame):
        return "res-table" if k.startswith("res_") else "table"
    return type(v).__name__
