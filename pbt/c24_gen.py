"""Case generator for C24 (batch creation == one-by-one creation).  See pbt/props/c24.py.

A case is JSON:
  {"pair": <pair id>, "n": k,
   "base": {"nb": [n110, n20, n10, n04], "bus_index": [...], "std": {"line": {name: data}, "trafo": {...}, "trafo3w": {...}},
            "pre": {"n": k0, "args": {...}} | None,        # pre-existing elements of the tested table (single calls)
            "pre_costs": [{"kind": "poly"|"pwl", "element": e, "et": t, "power_type": "p"}, ...]},
   "args": {param: {"s": scalar} | {"v": [k values]}},      # keyed by the parameter name of the SINGLE function
   "container": "list"|"array", "pf": bool}
Values: "nan" stands for float('nan'); bus parameters hold bus *positions* (99 = a bus that does not exist);
switch elements hold ordinals of the skeleton lines/trafos/trafo3w (== their index) or bus positions (et == "b").
"""
from hypothesis import strategies as st

from pbt.netgen import q

NAN = "nan"
MISSING_BUS = 99
LEVELS = (110.0, 20.0, 10.0, 0.4)

PAIRS = {
    # id: (single function, batch function, table)
    "bus": ("create_bus", "create_buses", "bus"),
    "line": ("create_line", "create_lines", "line"),
    "line_fp": ("create_line_from_parameters", "create_lines_from_parameters", "line"),
    "trafo": ("create_transformer", "create_transformers", "trafo"),
    "trafo_fp": ("create_transformer_from_parameters", "create_transformers_from_parameters", "trafo"),
    "trafo3w": ("create_transformer3w", "create_transformers3w", "trafo3w"),
    "trafo3w_fp": ("create_transformer3w_from_parameters", "create_transformers3w_from_parameters", "trafo3w"),
    "load": ("create_load", "create_loads", "load"),
    "sgen": ("create_sgen", "create_sgens", "sgen"),
    "gen": ("create_gen", "create_gens", "gen"),
    "storage": ("create_storage", "create_storages", "storage"),
    "shunt": ("create_shunt", "create_shunts", "shunt"),
    "ward": ("create_ward", "create_wards", "ward"),
    "switch": ("create_switch", "create_switches", "switch"),
    "impedance": ("create_impedance", "create_impedances", "impedance"),
    "poly_cost": ("create_poly_cost", "create_poly_costs", "poly_cost"),
    "pwl_cost": ("create_pwl_cost", "create_pwl_costs", "pwl_cost"),
}
PAIR_WEIGHTS = {"bus": 2, "line": 4, "line_fp": 3, "trafo": 5, "trafo_fp": 3, "trafo3w": 3, "trafo3w_fp": 2, "load": 2,
                "sgen": 2, "gen": 2, "storage": 2, "shunt": 3, "ward": 2, "switch": 4, "impedance": 2, "poly_cost": 5,
                "pwl_cost": 5}
# single-parameter name -> batch-parameter name (everything else is spelled the same)
BATCH_NAME = {"bus": "buses", "from_bus": "from_buses", "to_bus": "to_buses", "hv_bus": "hv_buses", "mv_bus": "mv_buses",
              "lv_bus": "lv_buses", "element": "elements"}
BUS_PARAMS = ("bus", "from_bus", "to_bus", "hv_bus", "mv_bus", "lv_bus")

BUILTIN_LINE = {110.0: ["149-AL1/24-ST1A 110.0", "N2XS(FL)2Y 1x120 RM/35 64/110 kV"],
                20.0: ["NA2XS2Y 1x95 RM/25 12/20 kV", "94-AL1/15-ST1A 20.0"],
                10.0: ["NA2XS2Y 1x95 RM/25 6/10 kV", "94-AL1/15-ST1A 10.0"],
                0.4: ["NAYY 4x50 SE", "15-AL1/3-ST1A 0.4"]}
BUILTIN_TRAFO = {(110.0, 20.0): ["25 MVA 110/20 kV", "40 MVA 110/20 kV", "63 MVA 110/20 kV"],
                 (110.0, 10.0): ["25 MVA 110/10 kV", "40 MVA 110/10 kV"],
                 (20.0, 0.4): ["0.25 MVA 20/0.4 kV", "0.4 MVA 20/0.4 kV", "0.63 MVA 20/0.4 kV"],
                 (10.0, 0.4): ["0.25 MVA 10/0.4 kV", "0.4 MVA 10/0.4 kV"]}
BUILTIN_TRAFO3W = ["63/25/38 MVA 110/20/10 kV", "63/25/38 MVA 110/10/10 kV"]
# per level: r, x, c, max_i, length ranges for generated line parameters
LINE_RANGES = {110.0: ((0.05, 0.2), (0.25, 0.45), (8, 15), (0.4, 1.0), (1, 20)),
               20.0: ((0.1, 0.6), (0.1, 0.4), (10, 300), (0.15, 0.6), (0.2, 5)),
               10.0: ((0.1, 0.6), (0.08, 0.35), (10, 350), (0.15, 0.5), (0.1, 4)),
               0.4: ((0.2, 0.65), (0.07, 0.1), (150, 300), (0.1, 0.4), (0.02, 0.3))}
S_LEVEL = {110.0: 30.0, 20.0: 3.0, 10.0: 1.5, 0.4: 0.3}


# ------------------------------------------------------------------------------------------------ skeleton
def positions(nb):
    """level -> list of bus positions"""
    out, p = {}, 0
    for vn, k in zip(LEVELS, nb):
        out[vn] = list(range(p, p + k))
        p += k
    return out


def level_of(nb, pos):
    for vn, ps in positions(nb).items():
        if pos in ps:
            return vn
    return None


def skeleton(nb):
    """deterministic connected base network (positions): chain of lines per level, one trafo3w 110/20/10, one trafo 20/0.4"""
    ps = positions(nb)
    lines = []
    for vn in LEVELS:
        for a, b in zip(ps[vn][:-1], ps[vn][1:]):
            lines.append((a, b, vn))
    return {"lines": lines, "trafo3w": [(ps[110.0][0], ps[20.0][0], ps[10.0][0])], "trafo": [(ps[20.0][0], ps[0.4][0])],
            "loads": [ps[vn][-1] for vn in LEVELS], "ext_grid": ps[110.0][0]}


def existing_count(nb, table):
    sk = skeleton(nb)
    return {"line": len(sk["lines"]), "trafo": 1, "trafo3w": 1, "load": len(sk["loads"]), "bus": sum(nb)}.get(table, 0)


# ------------------------------------------------------------------------------------------------ small strategies
def wdraw(draw, pairs):
    """weighted choice from [(value, weight), ...]"""
    items = [v for v, w in pairs for _ in range(w)]
    return draw(st.sampled_from(items))


def fnan(lo, hi, nd=2, pnan=2, pval=3):
    return st.one_of(*([st.just(NAN)] * pnan + [q(lo, hi, nd)] * pval))


def col(draw, n, elem, mode="sv", pscalar=2):
    """one argument column: scalar for all elements or a vector with one entry per element"""
    if mode == "s" or (mode == "sv" and draw(st.integers(0, 4)) < pscalar):
        return {"s": draw(elem)}
    return {"v": [draw(elem) for _ in range(n)]}


def maybe(draw, p_num, p_den=10):
    return draw(st.integers(1, p_den)) <= p_num


class Ctx:
    def __init__(self, nb, n, invalid):
        self.nb, self.n, self.invalid = nb, n, invalid
        self.ps = positions(nb)
        self.nbt = sum(nb)
        self.std = {"line": {}, "trafo": {}, "trafo3w": {}}


def add(args, draw, n, name, elem, p=10, mode="sv"):
    if p >= 10 or maybe(draw, p):
        args[name] = col(draw, n, elem, mode)


def bus_vec(draw, ctx, n, pool=None, allow_missing=True):
    pool = pool if pool is not None else list(range(ctx.nbt))
    v = [draw(st.sampled_from(pool)) for _ in range(n)]
    if allow_missing and ctx.invalid == "missing-bus":
        v[draw(st.integers(0, n - 1))] = MISSING_BUS
    return v


def index_col(draw, ctx, n, existing, args):
    """index=None, fresh distinct indices, or (by construction) a duplicate / an already existing index"""
    inv = ctx.invalid
    if inv not in ("dup-index", "index-exists") and not maybe(draw, 4):
        return
    idx = [draw(st.integers(40, 60))]
    for _ in range(n - 1):
        idx.append(idx[-1] + draw(st.integers(1, 3)))
    if maybe(draw, 3):
        idx = idx[::-1]
    if inv == "dup-index":
        if n >= 2:
            idx[draw(st.integers(1, n - 1))] = idx[0]
        elif existing:
            idx[0] = draw(st.sampled_from(sorted(existing)))
    elif inv == "index-exists":
        if existing:
            idx[draw(st.integers(0, n - 1))] = draw(st.sampled_from(sorted(existing)))
        elif n >= 2:
            idx[n - 1] = idx[0]
    args["index"] = {"v": idx}


BOOL = st.booleans()
BOOL_T = st.sampled_from([True, True, True, False])
CTRL = st.sampled_from([True, False, NAN])
PWR = q(-0.02, 0.02, 4)
PPOS = q(0.0, 0.02, 4)


def opf_limits(args, draw, n, p=3):
    add(args, draw, n, "max_p_mw", fnan(0.02, 0.05, 3), p)
    add(args, draw, n, "min_p_mw", fnan(-0.05, 0.0, 3), p)
    add(args, draw, n, "max_q_mvar", fnan(0.01, 0.05, 3), p)
    add(args, draw, n, "min_q_mvar", fnan(-0.05, -0.01, 3), p)
    add(args, draw, n, "controllable", CTRL, p)


def tag(args, draw, n):
    # arbitrary additional column through **kwargs (documented for all create functions)
    if maybe(draw, 2):
        args["tag_x"] = col(draw, n, q(0, 9, 1))


# ------------------------------------------------------------------------------------------------ std types
@st.composite
def tap_block(draw, sides=("hv", "lv"), prefix="tap"):
    tt = draw(st.sampled_from(["Ratio", "Ratio", "Symmetrical", "Ideal"]))
    tmin = -draw(st.integers(0, 6))
    tmax = draw(st.integers(1, 6))
    neutral = draw(st.integers(tmin, tmax)) if draw(st.integers(0, 2)) == 0 else 0
    d = {prefix + "_side": draw(st.sampled_from(sides)), prefix + "_neutral": neutral, prefix + "_min": tmin,
         prefix + "_max": tmax, prefix + "_changer_type": tt}
    if tt in ("Ratio", "Symmetrical"):
        d[prefix + "_step_percent"] = draw(q(0.5, 2.5, 2))
        if tt == "Ratio" and draw(st.integers(0, 2)) == 0:
            d[prefix + "_step_degree"] = draw(st.sampled_from([0.0, 30.0, 60.0, 90.0]))
    else:
        d[prefix + "_step_degree"] = draw(q(0.2, 2.0, 2))
    return d


@st.composite
def custom_line_type(draw, vn):
    r, x, c, i, _ = LINE_RANGES[vn]
    d = {"r_ohm_per_km": draw(q(*r, nd=3)), "x_ohm_per_km": draw(q(*x, nd=3)), "c_nf_per_km": draw(q(*c, nd=1)),
         "max_i_ka": draw(q(*i, nd=3))}
    if draw(st.integers(0, 1)):
        d["type"] = draw(st.sampled_from(["ol", "cs"]))
    if draw(st.integers(0, 2)) == 0:
        d["g_us_per_km"] = draw(q(0.0, 4.0, 2))
    if draw(st.integers(0, 1)):
        d.update(r0_ohm_per_km=draw(q(*r, nd=3)) * 2, x0_ohm_per_km=draw(q(*x, nd=3)) * 3, c0_nf_per_km=draw(q(*c, nd=1)))
    if draw(st.integers(0, 1)):
        d["alpha"] = draw(st.sampled_from([0.00403, 0.00393]))
    if draw(st.integers(0, 3)) == 0:
        d["q_mm2"] = draw(st.sampled_from([50, 95, 150]))
    return d


@st.composite
def custom_trafo_type(draw, vh, vl):
    sn = round(S_LEVEL[vl] * draw(q(2.0, 10.0, 1)), 3)
    vk = draw(q(4.0, 16.0, 1))
    d = {"sn_mva": sn, "vn_hv_kv": vh * draw(st.sampled_from([1.0, 1.0, 1.05])), "vn_lv_kv": vl * draw(st.sampled_from([1.0, 1.0, 1.05])),
         "vk_percent": vk, "vkr_percent": min(draw(q(0.2, 1.5, 2)), vk), "pfe_kw": round(sn * draw(q(0.0, 1.5, 1)), 3),
         "i0_percent": draw(q(0.0, 0.5, 2)), "shift_degree": draw(st.sampled_from([150, 150, 150, 0, 30, 180, -30]))}
    if draw(st.integers(0, 3)):
        d.update(draw(tap_block()))
    if draw(st.integers(0, 2)) == 0:
        d.update(draw(tap_block(prefix="tap2")))
    if draw(st.integers(0, 2)) == 0:
        d["vector_group"] = draw(st.sampled_from(["Dyn", "YNyn", "Yzn"]))
        d.update(vk0_percent=vk, vkr0_percent=d["vkr_percent"], mag0_percent=100.0, mag0_rx=0.0, si0_hv_partial=0.9)
    return d


@st.composite
def custom_trafo3w_type(draw):
    vk = draw(q(8.0, 14.0, 1))
    d = {"sn_hv_mva": 63.0, "sn_mv_mva": draw(st.sampled_from([25.0, 40.0])), "sn_lv_mva": draw(st.sampled_from([25.0, 38.0])),
         "vn_hv_kv": 110.0, "vn_mv_kv": 20.0 * draw(st.sampled_from([1.0, 1.05])), "vn_lv_kv": 10.0,
         "vk_hv_percent": vk, "vk_mv_percent": draw(q(8.0, 14.0, 1)), "vk_lv_percent": draw(q(8.0, 14.0, 1)),
         "vkr_hv_percent": draw(q(0.2, 0.4, 2)), "vkr_mv_percent": draw(q(0.2, 0.4, 2)), "vkr_lv_percent": draw(q(0.2, 0.4, 2)),
         "pfe_kw": draw(q(0.0, 40.0, 0)), "i0_percent": draw(q(0.0, 0.9, 2)),
         "shift_mv_degree": draw(st.sampled_from([150, 150, 0, 30])), "shift_lv_degree": draw(st.sampled_from([150, 150, 0, 30]))}
    if draw(st.integers(0, 3)):
        d.update(draw(tap_block(sides=("hv", "mv", "lv"))))
    if draw(st.integers(0, 3)) == 0:
        d["vector_group"] = "YN0yn0yn0"
    return d


# ------------------------------------------------------------------------------------------------ per pair argument columns
def gen_bus(draw, ctx, n, existing):
    a = {}
    add(a, draw, n, "vn_kv", st.sampled_from(LEVELS))
    add(a, draw, n, "type", st.sampled_from(["b", "n", "m"]), 4)
    add(a, draw, n, "zone", st.sampled_from([None, "z1", "z2"]), 3)
    add(a, draw, n, "in_service", BOOL_T, 4)
    add(a, draw, n, "max_vm_pu", fnan(1.02, 1.2, 2), 4)
    add(a, draw, n, "min_vm_pu", fnan(0.8, 0.98, 2), 4)
    add(a, draw, n, "geodata", st.tuples(q(0, 9, 1), q(0, 9, 1)).map(list), 2)
    tag(a, draw, n)
    index_col(draw, ctx, n, existing, a)
    return a


def same_level_pairs(draw, ctx, n, levels=None):
    """from/to bus positions and the level of each branch (both ends on one voltage level when the level has >= 2 buses)"""
    frm, to, lv = [], [], []
    cand = [vn for vn in LEVELS if len(ctx.ps[vn]) >= 2]
    for k in range(n):
        vn = levels[k] if levels else draw(st.sampled_from(cand))
        ps = ctx.ps[vn]
        if len(ps) >= 2:
            a = draw(st.sampled_from(ps))
            b = draw(st.sampled_from([p for p in ps if p != a]))
        else:
            a = ps[0]
            b = draw(st.sampled_from([p for p in range(ctx.nbt) if p != a]))
        frm.append(a), to.append(b), lv.append(vn)
    if ctx.invalid == "missing-bus":
        (frm if draw(BOOL) else to)[draw(st.integers(0, n - 1))] = MISSING_BUS
    return frm, to, lv


def line_common(a, draw, ctx, n, lv):
    a["length_km"] = col(draw, n, q(0.05, 2.0, 2))
    add(a, draw, n, "df", q(0.5, 1.0, 2), 3)
    add(a, draw, n, "parallel", st.integers(1, 3), 3)
    add(a, draw, n, "in_service", BOOL_T, 3)
    add(a, draw, n, "max_loading_percent", fnan(50, 100, 0), 4)
    # documented as plain floats / bool for the batch functions -> scalars
    add(a, draw, n, "alpha", st.sampled_from([0.004, 0.00403]), 2, "s")
    add(a, draw, n, "temperature_degree_celsius", q(20, 80, 0), 2, "s")
    add(a, draw, n, "tdpf", BOOL, 1, "s")
    add(a, draw, n, "wind_speed_m_per_s", q(0.5, 5, 1), 1, "s")
    if maybe(draw, 1):
        a["geodata"] = {"v": [[[0.0, float(k)], [1.0, float(k)]] for k in range(n)]}
    tag(a, draw, n)


def gen_line(draw, ctx, n, existing):
    a = {}
    frm, to, lv = same_level_pairs(draw, ctx, n)
    a["from_bus"], a["to_bus"] = {"v": frm}, {"v": to}
    names = []
    for vn in lv:
        choices = list(BUILTIN_LINE[vn])
        if maybe(draw, 6):
            name = "cl_%s_%d" % (str(vn).replace(".", "_"), draw(st.integers(0, 1)))
            if name not in ctx.std["line"]:
                ctx.std["line"][name] = draw(custom_line_type(vn))
            choices = [name]
        names.append(draw(st.sampled_from(choices)))
    if len(set(names)) == 1 and maybe(draw, 7):
        a["std_type"] = {"s": names[0]}
    elif maybe(draw, 5):
        a["std_type"] = {"s": names[0]}       # documented main use: one std type for all lines
    else:
        a["std_type"] = {"v": names}
    line_common(a, draw, ctx, n, lv)
    index_col(draw, ctx, n, existing, a)
    return a


def gen_line_fp(draw, ctx, n, existing):
    a = {}
    frm, to, lv = same_level_pairs(draw, ctx, n)
    a["from_bus"], a["to_bus"] = {"v": frm}, {"v": to}
    r, x, c, i, _ = LINE_RANGES[lv[0]]
    a["r_ohm_per_km"] = col(draw, n, q(*r, nd=3))
    a["x_ohm_per_km"] = col(draw, n, q(*x, nd=3))
    a["c_nf_per_km"] = col(draw, n, q(*c, nd=1))
    a["max_i_ka"] = col(draw, n, q(*i, nd=3))
    add(a, draw, n, "type", st.sampled_from([None, "ol", "cs"]), 4)
    add(a, draw, n, "g_us_per_km", q(0.0, 4.0, 2), 3)
    if maybe(draw, 3):      # zero sequence data: documented as all-or-nothing
        a["r0_ohm_per_km"] = col(draw, n, q(*r, nd=3))
        a["x0_ohm_per_km"] = col(draw, n, q(*x, nd=3))
        a["c0_nf_per_km"] = col(draw, n, q(*c, nd=1))
        add(a, draw, n, "g0_us_per_km", q(0.0, 4.0, 2), 5)
    line_common(a, draw, ctx, n, lv)
    index_col(draw, ctx, n, existing, a)
    return a


def tap_pos_elem(lo=-3, hi=3):
    return st.one_of(st.just(NAN), st.just(NAN), st.integers(lo, hi), st.integers(lo, hi), st.integers(lo, hi))


def trafo_levels(draw, ctx):
    return draw(st.sampled_from([(110.0, 20.0), (110.0, 20.0), (20.0, 0.4), (20.0, 0.4), (110.0, 10.0), (10.0, 0.4)]))


def trafo_buses(a, draw, ctx, n, vh, vl):
    hv = [draw(st.sampled_from(ctx.ps[vh])) for _ in range(n)]
    lv = [draw(st.sampled_from(ctx.ps[vl])) for _ in range(n)]
    if maybe(draw, 1):     # any buses (create does not look at voltage levels)
        hv = bus_vec(draw, ctx, n, allow_missing=False)
    if ctx.invalid == "missing-bus":
        (hv if draw(BOOL) else lv)[draw(st.integers(0, n - 1))] = MISSING_BUS
    a["hv_bus"], a["lv_bus"] = {"v": hv}, {"v": lv}


def trafo_common(a, draw, n):
    add(a, draw, n, "in_service", BOOL_T, 3)
    add(a, draw, n, "max_loading_percent", fnan(50, 100, 0), 4)
    add(a, draw, n, "parallel", st.integers(1, 2), 3)
    add(a, draw, n, "df", q(0.5, 1.0, 2), 3)
    add(a, draw, n, "pt_percent", fnan(1, 5, 1), 2)
    add(a, draw, n, "oltc", BOOL, 2)
    add(a, draw, n, "xn_ohm", fnan(0.1, 2, 1), 2)
    add(a, draw, n, "id_characteristic_table", st.sampled_from([None, 0, 1]), 1)
    tag(a, draw, n)


def gen_trafo(draw, ctx, n, existing):
    a = {}
    vh, vl = trafo_levels(draw, ctx)
    if maybe(draw, 5):
        name = "ct_%d" % draw(st.integers(0, 1))
        ctx.std["trafo"][name] = draw(custom_trafo_type(vh, vl))
    else:
        name = draw(st.sampled_from(BUILTIN_TRAFO[(vh, vl)]))
    a["std_type"] = {"s": name}
    trafo_buses(a, draw, ctx, n, vh, vl)
    add(a, draw, n, "tap_pos", tap_pos_elem(), 5)
    add(a, draw, n, "tap2_pos", tap_pos_elem(), 2)
    if maybe(draw, 2):
        # scalar None = "as in the std type"; inside a vector None is ambiguous ("no tap changer" vs "not given") -> not drawn
        a["tap_changer_type"] = {"s": draw(st.sampled_from([None, "Ratio", "Symmetrical", "Ideal"]))} if maybe(draw, 5) else \
            {"v": [draw(st.sampled_from(["Ratio", "Symmetrical", "Ideal"])) for _ in range(n)]}
    trafo_common(a, draw, n)
    index_col(draw, ctx, n, existing, a)
    return a


def block_cols(draw, n, elem_block, keys_default):
    """n joint parameter blocks -> columns; a key missing in a block gets its function default"""
    if maybe(draw, 4):
        blocks = [draw(elem_block)] * n
    else:
        blocks = [draw(elem_block) for _ in range(n)]
    out = {}
    for k, dflt in keys_default.items():
        vals = [b.get(k, dflt) for b in blocks]
        if all(v == dflt for v in vals):
            continue
        if len(set(map(str, vals))) == 1 and maybe(draw, 6):
            out[k] = {"s": vals[0]}
        else:
            out[k] = {"v": vals}
    return out


TAP_DEFAULTS = {"tap_side": None, "tap_neutral": NAN, "tap_min": NAN, "tap_max": NAN, "tap_step_percent": NAN,
                "tap_step_degree": NAN, "tap_changer_type": None}
TAP2_DEFAULTS = {"tap2_side": None, "tap2_neutral": NAN, "tap2_min": NAN, "tap2_max": NAN, "tap2_step_percent": NAN,
                 "tap2_step_degree": NAN, "tap2_changer_type": None}


def gen_trafo_fp(draw, ctx, n, existing):
    a = {}
    vh, vl = trafo_levels(draw, ctx)
    trafo_buses(a, draw, ctx, n, vh, vl)
    s = S_LEVEL[vl]
    a["sn_mva"] = col(draw, n, q(2 * s, 10 * s, 2))
    a["vn_hv_kv"] = col(draw, n, st.sampled_from([vh, vh, vh * 1.05]))
    a["vn_lv_kv"] = col(draw, n, st.sampled_from([vl, vl, vl * 1.05]))
    a["vk_percent"] = col(draw, n, q(4.0, 16.0, 1))
    a["vkr_percent"] = col(draw, n, q(0.2, 1.5, 2))
    a["pfe_kw"] = col(draw, n, q(0.0, 10.0, 1))
    a["i0_percent"] = col(draw, n, q(0.0, 0.5, 2))
    add(a, draw, n, "shift_degree", st.sampled_from([150, 150, 0, 30, 180]), 7, "sv")
    if maybe(draw, 7):
        a.update(block_cols(draw, n, st.one_of(st.just({}), tap_block(), tap_block()), TAP_DEFAULTS))
        add(a, draw, n, "tap_pos", tap_pos_elem(), 5)
    if maybe(draw, 2):
        a.update(block_cols(draw, n, st.one_of(st.just({}), tap_block(prefix="tap2")), TAP2_DEFAULTS))
        add(a, draw, n, "tap2_pos", tap_pos_elem(), 5)
    if maybe(draw, 2):
        add(a, draw, n, "vector_group", st.sampled_from([None, "Dyn", "YNyn", "Yzn"]))
        add(a, draw, n, "vk0_percent", fnan(4, 16, 1))
        add(a, draw, n, "vkr0_percent", fnan(0.2, 1.5, 2))
        add(a, draw, n, "mag0_percent", fnan(50, 100, 0))
        add(a, draw, n, "mag0_rx", fnan(0, 1, 1))
        add(a, draw, n, "si0_hv_partial", fnan(0.5, 0.9, 1))
    add(a, draw, n, "leakage_resistance_ratio_hv", q(0.3, 0.7, 1), 1, "s")
    trafo_common(a, draw, n)
    index_col(draw, ctx, n, existing, a)
    return a


def trafo3w_buses(a, draw, ctx, n):
    hv = [draw(st.sampled_from(ctx.ps[110.0])) for _ in range(n)]
    mv = [draw(st.sampled_from(ctx.ps[20.0])) for _ in range(n)]
    lv = [draw(st.sampled_from(ctx.ps[10.0])) for _ in range(n)]
    if ctx.invalid == "missing-bus":
        draw(st.sampled_from([hv, mv, lv]))[draw(st.integers(0, n - 1))] = MISSING_BUS
    a["hv_bus"], a["mv_bus"], a["lv_bus"] = {"v": hv}, {"v": mv}, {"v": lv}


def trafo3w_common(a, draw, n):
    add(a, draw, n, "in_service", BOOL_T, 3)
    add(a, draw, n, "max_loading_percent", fnan(50, 100, 0), 4)
    add(a, draw, n, "tap_at_star_point", BOOL, 3)
    add(a, draw, n, "id_characteristic_table", st.sampled_from([None, 0, 1]), 1)
    tag(a, draw, n)


def gen_trafo3w(draw, ctx, n, existing):
    a = {}
    if maybe(draw, 6):
        name = "ct3_%d" % draw(st.integers(0, 1))
        ctx.std["trafo3w"][name] = draw(custom_trafo3w_type())
    else:
        name = draw(st.sampled_from(BUILTIN_TRAFO3W))
    a["std_type"] = {"s": name}
    trafo3w_buses(a, draw, ctx, n)
    add(a, draw, n, "tap_pos", tap_pos_elem(), 5)
    if maybe(draw, 2):
        # scalar None = "as in the std type"; inside a vector None is ambiguous ("no tap changer" vs "not given") -> not drawn
        a["tap_changer_type"] = {"s": draw(st.sampled_from([None, "Ratio", "Symmetrical", "Ideal"]))} if maybe(draw, 5) else \
            {"v": [draw(st.sampled_from(["Ratio", "Symmetrical", "Ideal"])) for _ in range(n)]}
    trafo3w_common(a, draw, n)
    index_col(draw, ctx, n, existing, a)
    return a


def gen_trafo3w_fp(draw, ctx, n, existing):
    a = {}
    trafo3w_buses(a, draw, ctx, n)
    a["vn_hv_kv"] = col(draw, n, st.just(110.0))
    a["vn_mv_kv"] = col(draw, n, st.sampled_from([20.0, 21.0]))
    a["vn_lv_kv"] = col(draw, n, st.sampled_from([10.0, 10.5]))
    a["sn_hv_mva"] = col(draw, n, st.sampled_from([63.0, 40.0]))
    a["sn_mv_mva"] = col(draw, n, st.sampled_from([25.0, 40.0]))
    a["sn_lv_mva"] = col(draw, n, st.sampled_from([25.0, 38.0]))
    for k in ("vk_hv_percent", "vk_mv_percent", "vk_lv_percent"):
        a[k] = col(draw, n, q(8.0, 14.0, 1))
    for k in ("vkr_hv_percent", "vkr_mv_percent", "vkr_lv_percent"):
        a[k] = col(draw, n, q(0.2, 0.4, 2))
    a["pfe_kw"] = col(draw, n, q(0.0, 40.0, 0))
    a["i0_percent"] = col(draw, n, q(0.0, 0.9, 2))
    add(a, draw, n, "shift_mv_degree", st.sampled_from([150.0, 150.0, 0.0, 30.0]), 7)
    add(a, draw, n, "shift_lv_degree", st.sampled_from([150.0, 150.0, 0.0, 30.0]), 7)
    if maybe(draw, 7):
        a.update(block_cols(draw, n, st.one_of(st.just({}), tap_block(sides=("hv", "mv", "lv")), tap_block(sides=("hv", "mv", "lv"))),
                            TAP_DEFAULTS))
        add(a, draw, n, "tap_pos", tap_pos_elem(), 5)
    if maybe(draw, 2):
        add(a, draw, n, "vector_group", st.sampled_from([None, "YN0yn0yn0", "Yyd"]))
        for k in ("vk0_hv_percent", "vk0_mv_percent", "vk0_lv_percent"):
            add(a, draw, n, k, fnan(8, 14, 1))
        for k in ("vkr0_hv_percent", "vkr0_mv_percent", "vkr0_lv_percent"):
            add(a, draw, n, k, fnan(0.2, 0.4, 2))
    trafo3w_common(a, draw, n)
    index_col(draw, ctx, n, existing, a)
    return a


def zip_cols(a, draw, n):
    def one():
        zp = draw(st.integers(0, 100))
        ip = draw(st.integers(0, 100 - zp))
        zq = draw(st.integers(0, 100))
        iq = draw(st.integers(0, 100 - zq))
        return {"const_z_p_percent": float(zp), "const_i_p_percent": float(ip), "const_z_q_percent": float(zq),
                "const_i_q_percent": float(iq)}
    blocks = [one()] * n if maybe(draw, 4) else [one() for _ in range(n)]
    for k in blocks[0]:
        vals = [b[k] for b in blocks]
        a[k] = {"s": vals[0]} if len(set(vals)) == 1 and maybe(draw, 6) else {"v": vals}


def gen_load(draw, ctx, n, existing):
    a = {"bus": {"v": bus_vec(draw, ctx, n)}, "p_mw": col(draw, n, PPOS)}
    add(a, draw, n, "q_mvar", PWR, 6)
    if maybe(draw, 4):
        zip_cols(a, draw, n)
    add(a, draw, n, "sn_mva", fnan(0.01, 0.05, 3), 3)
    add(a, draw, n, "scaling", q(0.5, 1.5, 2), 3)
    add(a, draw, n, "in_service", BOOL_T, 3)
    add(a, draw, n, "type", st.sampled_from(["wye", "delta"]), 2, "s")
    opf_limits(a, draw, n)
    tag(a, draw, n)
    index_col(draw, ctx, n, existing, a)
    return a


def gen_sgen(draw, ctx, n, existing):
    a = {"bus": {"v": bus_vec(draw, ctx, n)}, "p_mw": col(draw, n, PPOS)}
    add(a, draw, n, "q_mvar", PWR, 6)
    add(a, draw, n, "sn_mva", fnan(0.01, 0.05, 3), 3)
    add(a, draw, n, "scaling", q(0.5, 1.5, 2), 3)
    add(a, draw, n, "in_service", BOOL_T, 3)
    add(a, draw, n, "type", st.sampled_from(["wye", "delta"]), 2, "s")
    opf_limits(a, draw, n)
    add(a, draw, n, "k", fnan(1.0, 1.5, 1), 3)
    add(a, draw, n, "rx", fnan(0.1, 0.5, 1), 2, "s")
    add(a, draw, n, "id_q_capability_characteristic", st.sampled_from([None, 0, 1]), 1)
    add(a, draw, n, "reactive_capability_curve", BOOL, 1)
    add(a, draw, n, "curve_style", st.sampled_from([None, "straightLineYValues", "constantYValue"]), 2)
    add(a, draw, n, "current_source", BOOL_T, 3)
    add(a, draw, n, "generator_type", st.sampled_from(["current_source", "async", "async_doubly_fed"]), 4, "s")
    add(a, draw, n, "max_ik_ka", fnan(0.1, 0.5, 1), 2, "s")
    add(a, draw, n, "kappa", fnan(1.0, 2.0, 1), 2, "s")
    add(a, draw, n, "lrc_pu", fnan(3.0, 6.0, 1), 2, "s")
    tag(a, draw, n)
    index_col(draw, ctx, n, existing, a)
    return a


def gen_gen(draw, ctx, n, existing):
    a = {"bus": {"v": bus_vec(draw, ctx, n)}, "p_mw": col(draw, n, PPOS)}
    add(a, draw, n, "vm_pu", q(0.98, 1.03, 2), 6)
    add(a, draw, n, "sn_mva", fnan(0.01, 0.05, 3), 3)
    add(a, draw, n, "max_q_mvar", fnan(0.01, 0.05, 3), 4)
    add(a, draw, n, "min_q_mvar", fnan(-0.05, -0.01, 3), 4)
    add(a, draw, n, "min_p_mw", fnan(0.0, 0.0, 3), 3)
    add(a, draw, n, "max_p_mw", fnan(0.02, 0.05, 3), 3)
    add(a, draw, n, "min_vm_pu", fnan(0.9, 0.98, 2), 3)
    add(a, draw, n, "max_vm_pu", fnan(1.03, 1.1, 2), 3)
    add(a, draw, n, "scaling", q(0.5, 1.5, 2), 3)
    add(a, draw, n, "type", st.sampled_from([None, "sync", "async"]), 2)
    add(a, draw, n, "slack", st.sampled_from([False, False, False, True]), 2)
    add(a, draw, n, "id_q_capability_characteristic", st.sampled_from([None, 0, 1]), 1)
    add(a, draw, n, "reactive_capability_curve", BOOL, 1)
    add(a, draw, n, "curve_style", st.sampled_from([None, "straightLineYValues", "constantYValue"]), 2)
    add(a, draw, n, "controllable", CTRL, 3)
    add(a, draw, n, "vn_kv", fnan(0.4, 20, 1), 2)
    add(a, draw, n, "xdss_pu", fnan(0.1, 0.3, 2), 2)
    add(a, draw, n, "rdss_ohm", fnan(0.01, 0.1, 2), 2)
    add(a, draw, n, "cos_phi", fnan(0.8, 1.0, 2), 2)
    add(a, draw, n, "pg_percent", fnan(0, 10, 0), 1, "s")
    add(a, draw, n, "power_station_trafo", st.sampled_from([NAN, 0]), 1, "s")
    add(a, draw, n, "in_service", BOOL_T, 3, "s")
    add(a, draw, n, "slack_weight", q(0.0, 1.0, 1), 2, "s")
    tag(a, draw, n)
    index_col(draw, ctx, n, existing, a)
    return a


def gen_storage(draw, ctx, n, existing):
    a = {"bus": {"v": bus_vec(draw, ctx, n)}, "p_mw": col(draw, n, PWR), "max_e_mwh": col(draw, n, q(0.01, 1.0, 2))}
    add(a, draw, n, "q_mvar", PWR, 5)
    add(a, draw, n, "sn_mva", fnan(0.01, 0.05, 3), 3)
    add(a, draw, n, "soc_percent", fnan(0, 100, 0), 4)
    add(a, draw, n, "min_e_mwh", q(0.0, 0.01, 3), 3)
    add(a, draw, n, "scaling", q(0.5, 1.5, 2), 3)
    add(a, draw, n, "type", st.sampled_from([None, "battery"]), 2)
    add(a, draw, n, "in_service", BOOL_T, 3)
    opf_limits(a, draw, n)
    tag(a, draw, n)
    index_col(draw, ctx, n, existing, a)
    return a


def gen_shunt(draw, ctx, n, existing):
    a = {"bus": {"v": bus_vec(draw, ctx, n)}, "q_mvar": col(draw, n, PWR)}
    add(a, draw, n, "p_mw", PPOS, 4)
    if maybe(draw, 4):
        # None (= rated voltage of the bus) is documented for the argument as a whole, not for single vector entries
        a["vn_kv"] = {"s": draw(st.sampled_from([None, None, 20.0, 0.4]))} if maybe(draw, 5) else \
            {"v": [draw(st.sampled_from([0.4, 10.0, 20.0, 110.0, 21.0])) for _ in range(n)]}
    add(a, draw, n, "step", st.integers(0, 3), 4)
    add(a, draw, n, "max_step", st.integers(3, 4), 3)
    add(a, draw, n, "in_service", BOOL_T, 3)
    add(a, draw, n, "id_characteristic_table", st.sampled_from([None, 0, 1]), 1)
    tag(a, draw, n)
    index_col(draw, ctx, n, existing, a)
    if n >= 2 and ctx.invalid is None and maybe(draw, 4):
        # shape: the labels of the referenced buses are also labels of the new rows (in another order)
        ps = [p for p in draw(st.permutations(list(range(ctx.nbt)))) if ctx.bus_index[p] not in existing][:n]
        if len(ps) == n:
            a["bus"] = {"v": ps}
            a["index"] = {"v": [ctx.bus_index[p] for p in draw(st.permutations(ps))]}
    return a


def gen_ward(draw, ctx, n, existing):
    a = {"bus": {"v": bus_vec(draw, ctx, n)}}
    for k in ("ps_mw", "qs_mvar", "pz_mw", "qz_mvar"):
        a[k] = col(draw, n, PWR)
    add(a, draw, n, "in_service", BOOL_T, 3)
    tag(a, draw, n)
    index_col(draw, ctx, n, existing, a)
    return a


def gen_switch(draw, ctx, n, existing):
    sk = skeleton(ctx.nb)
    ets, els, buses = [], [], []
    one_et = draw(st.sampled_from([None, None, "b", "l", "t", "t3"]))
    for _ in range(n):
        et = one_et or draw(st.sampled_from(["b", "l", "l", "t", "t3"]))
        if et == "b":
            b = draw(st.integers(0, ctx.nbt - 1))
            e = draw(st.sampled_from([p for p in range(ctx.nbt) if p != b]))
        else:
            tab = {"l": sk["lines"], "t": sk["trafo"], "t3": sk["trafo3w"]}[et]
            e = draw(st.integers(0, len(tab) - 1))
            ends = tab[e][:2] if et == "l" else tab[e]
            b = draw(st.sampled_from(list(ends)))
            if ctx.invalid == "switch-not-connected" and not buses:
                b = draw(st.sampled_from([p for p in range(ctx.nbt) if p not in ends]))
            if ctx.invalid == "switch-unknown-element" and not buses:
                e = 7 + len(tab)
        ets.append(et), els.append(e), buses.append(b)
    if ctx.invalid == "missing-bus":
        k = draw(st.integers(0, n - 1))
        if ets[k] == "b" and draw(BOOL):
            els[k] = MISSING_BUS
        else:
            buses[k] = MISSING_BUS
    a = {"bus": {"v": buses}, "element": {"v": els}}
    a["et"] = {"s": ets[0]} if len(set(ets)) == 1 and maybe(draw, 7) else {"v": ets}
    add(a, draw, n, "closed", BOOL, 5, "s")
    add(a, draw, n, "type", st.sampled_from([None, "CB", "LS", "LBS", "DS"]), 3, "s")
    add(a, draw, n, "z_ohm", st.sampled_from([0, 0.0, 0.01, 0.5]), 3, "s")
    add(a, draw, n, "in_ka", fnan(0.1, 1.0, 1), 2, "s")
    tag(a, draw, n)
    index_col(draw, ctx, n, existing, a)
    return a


def gen_impedance(draw, ctx, n, existing):
    a = {}
    frm, to, lv = same_level_pairs(draw, ctx, n)
    a["from_bus"], a["to_bus"] = {"v": frm}, {"v": to}
    a["rft_pu"] = col(draw, n, q(0.001, 0.05, 3))
    a["xft_pu"] = col(draw, n, q(0.001, 0.1, 3))
    a["sn_mva"] = col(draw, n, q(1.0, 10.0, 1))
    optn = st.one_of(st.none(), q(0.001, 0.05, 3))
    add(a, draw, n, "rtf_pu", q(0.001, 0.05, 3), 3)
    add(a, draw, n, "xtf_pu", q(0.001, 0.1, 3), 3)
    add(a, draw, n, "in_service", BOOL_T, 3)
    add(a, draw, n, "gf_pu", q(0.0, 0.01, 3), 3)
    add(a, draw, n, "bf_pu", q(0.0, 0.01, 3), 3)
    add(a, draw, n, "gt_pu", q(0.0, 0.01, 3), 2)
    add(a, draw, n, "bt_pu", q(0.0, 0.01, 3), 2)
    if maybe(draw, 3):
        a["rft0_pu"] = col(draw, n, q(0.001, 0.05, 3))
        a["xft0_pu"] = col(draw, n, q(0.001, 0.1, 3))
        add(a, draw, n, "rtf0_pu", q(0.001, 0.05, 3), 4)
        add(a, draw, n, "xtf0_pu", q(0.001, 0.1, 3), 4)
    if maybe(draw, 2):
        a["gf0_pu"] = col(draw, n, q(0.0, 0.01, 3))
        a["bf0_pu"] = col(draw, n, q(0.0, 0.01, 3))
        add(a, draw, n, "gt0_pu", q(0.0, 0.01, 3), 4)
        add(a, draw, n, "bt0_pu", q(0.0, 0.01, 3), 4)
    tag(a, draw, n)
    index_col(draw, ctx, n, existing, a)
    return a


COST_ET = ["gen", "sgen", "load", "ext_grid", "storage"]


def cost_targets(draw, ctx, n, pre_costs, kind):
    """(element, et[, power_type]) per new cost; duplicates (within the call / with existing costs) only on request"""
    used = {(c["element"], c["et"]) for c in pre_costs}
    one_et = draw(st.sampled_from([None, "gen", "load", "sgen"]))
    tg = []
    for _ in range(n):
        for _try in range(20):
            e, t = draw(st.integers(0, 3)), one_et or draw(st.sampled_from(COST_ET))
            if (e, t) not in used:
                break
        used.add((e, t))
        tg.append([e, t])
    if ctx.invalid == "dup-cost-existing" and pre_costs:
        c = draw(st.sampled_from(pre_costs))
        tg[draw(st.integers(0, n - 1))] = [c["element"], c["et"]]
    elif ctx.invalid in ("dup-cost-within", "dup-cost-existing") and n >= 2:
        tg[draw(st.integers(1, n - 1))] = list(tg[0])
    return tg


def gen_poly_cost(draw, ctx, n, existing, pre_costs=()):
    tg = cost_targets(draw, ctx, n, list(pre_costs), "poly")
    a = {"element": {"v": [t[0] for t in tg]}}
    ets = [t[1] for t in tg]
    a["et"] = {"s": ets[0]} if len(set(ets)) == 1 and maybe(draw, 7) else {"v": ets}
    a["cp1_eur_per_mw"] = col(draw, n, q(0, 50, 1))
    add(a, draw, n, "cp0_eur", q(0, 9, 1), 3)
    add(a, draw, n, "cq1_eur_per_mvar", q(0, 9, 1), 3)
    add(a, draw, n, "cq0_eur", q(0, 9, 1), 2)
    add(a, draw, n, "cp2_eur_per_mw2", q(0, 2, 2), 3)
    add(a, draw, n, "cq2_eur_per_mvar2", q(0, 2, 2), 2)
    add(a, draw, n, "check", st.sampled_from([True, True, False]), 2, "s")
    tag(a, draw, n)
    index_col(draw, ctx, n, existing, a)
    return a


def gen_pwl_cost(draw, ctx, n, existing, pre_costs=()):
    tg = cost_targets(draw, ctx, n, list(pre_costs), "pwl")
    a = {"element": {"v": [t[0] for t in tg]}}
    ets = [t[1] for t in tg]
    a["et"] = {"s": ets[0]} if len(set(ets)) == 1 and maybe(draw, 7) else {"v": ets}

    def pts():
        k = draw(st.integers(1, 3))
        xs = [0.0]
        for _ in range(k):
            xs.append(xs[-1] + draw(q(0.5, 5, 1)))
        return [[xs[i], xs[i + 1], draw(q(0, 9, 1))] for i in range(k)]
    a["points"] = {"v": [pts() for _ in range(n)]}
    add(a, draw, n, "power_type", st.sampled_from(["p", "q"]), 5)
    add(a, draw, n, "check", st.sampled_from([True, True, False]), 2, "s")
    tag(a, draw, n)
    index_col(draw, ctx, n, existing, a)
    return a


GEN = {"bus": gen_bus, "line": gen_line, "line_fp": gen_line_fp, "trafo": gen_trafo, "trafo_fp": gen_trafo_fp,
       "trafo3w": gen_trafo3w, "trafo3w_fp": gen_trafo3w_fp, "load": gen_load, "sgen": gen_sgen, "gen": gen_gen,
       "storage": gen_storage, "shunt": gen_shunt, "ward": gen_ward, "switch": gen_switch, "impedance": gen_impedance,
       "poly_cost": gen_poly_cost, "pwl_cost": gen_pwl_cost}

INVALID = {
    "default": [(None, 24), ("missing-bus", 2), ("dup-index", 2), ("index-exists", 2)],
    "bus": [(None, 24), ("dup-index", 3), ("index-exists", 3)],
    "switch": [(None, 16), ("missing-bus", 2), ("dup-index", 1), ("index-exists", 1), ("switch-not-connected", 6),
               ("switch-unknown-element", 2)],
    "cost": [(None, 12), ("dup-cost-existing", 6), ("dup-cost-within", 5), ("dup-index", 1), ("index-exists", 2)],
}


@st.composite
def case(draw, tier="quick", pairs=None):
    pair = wdraw(draw, [(p, w) for p, w in PAIR_WEIGHTS.items() if pairs is None or p in pairs])
    table = PAIRS[pair][2]
    nb = [draw(st.integers(1, 2)), draw(st.integers(2, 3)), draw(st.integers(1, 2)), draw(st.integers(1, 2))]
    nbt = sum(nb)
    mode = draw(st.sampled_from(["range", "range", "offset", "perm"]))
    if mode == "range":
        bus_index = list(range(nbt))
    elif mode == "offset":
        off = draw(st.integers(1, 9))
        bus_index = list(range(off, off + nbt))
    else:
        bus_index = draw(st.permutations(list(range(nbt + 3))))[:nbt]
    n = wdraw(draw, [(1, 2), (2, 4), (3, 3), (4, 2), (5, 1 if tier == "quick" else 2)])
    cost = pair in ("poly_cost", "pwl_cost")
    inv = wdraw(draw, INVALID["cost" if cost else pair if pair in INVALID else "default"])
    ctx = Ctx(nb, n, inv)
    ctx.bus_index = bus_index
    base_n = existing_count(nb, table)
    existing = set(bus_index) if pair == "bus" else set(range(base_n))

    # pre-existing elements of the same table (created by single calls in the base net of both sides)
    pre = None
    pre_costs = []
    if cost:
        for _ in range(draw(st.integers(0, 3))):
            c = {"kind": draw(st.sampled_from(["poly", "pwl"])), "element": draw(st.integers(0, 3)),
                 "et": draw(st.sampled_from(COST_ET)), "power_type": draw(st.sampled_from(["p", "q"]))}
            if all((c["element"], c["et"]) != (o["element"], o["et"]) for o in pre_costs):
                pre_costs.append(c)
        existing = set(range(sum(1 for c in pre_costs if c["kind"] + "_cost" == pair)))
    elif draw(st.integers(0, 2)) > 0:
        k0 = draw(st.integers(1, 2))
        pctx = Ctx(nb, k0, None)
        pctx.bus_index = bus_index
        pctx.std = ctx.std
        pargs = GEN[pair](draw, pctx, k0, set())
        pargs.pop("index", None)
        if pair == "bus":
            top = max(bus_index)
            pidx = [top + 1 + i for i in range(k0)]
        else:
            pidx = [base_n + i for i in range(k0)]
            if maybe(draw, 3):
                s0 = draw(st.integers(20, 30))
                pidx = [s0 + 2 * i for i in range(k0)]
                pargs["index"] = {"v": pidx}
        pre = {"n": k0, "args": pargs}
        existing |= set(pidx)
    if cost:
        args = GEN[pair](draw, ctx, n, existing, pre_costs)
    else:
        args = GEN[pair](draw, ctx, n, existing)
    pf = (not cost) and draw(st.integers(0, 3)) == 0
    return {"pair": pair, "n": n,
            "base": {"nb": nb, "bus_index": bus_index, "std": ctx.std, "pre": pre, "pre_costs": pre_costs},
            "args": args, "container": draw(st.sampled_from(["list", "list", "list", "array"])), "pf": pf}
