"""Oracles shared between properties: electrical nodes, nodal balance, table snapshots, result comparison."""
import copy
import math

import numpy as np
import pandas as pd

# bus elements: table -> (bus column, sign of reported power in load convention)
BUS_ELEMENTS = {
    "load": ("bus", +1), "sgen": ("bus", -1), "gen": ("bus", -1), "ext_grid": ("bus", -1), "storage": ("bus", +1),
    "motor": ("bus", +1), "shunt": ("bus", +1), "ward": ("bus", +1), "xward": ("bus", +1),
    "asymmetric_load": ("bus", +1), "asymmetric_sgen": ("bus", -1), "svc": ("bus", +1), "ssc": ("bus", +1),
}
# branches: table -> list of (bus column, p column, q column)
BRANCHES = {
    "line": [("from_bus", "p_from_mw", "q_from_mvar"), ("to_bus", "p_to_mw", "q_to_mvar")],
    "trafo": [("hv_bus", "p_hv_mw", "q_hv_mvar"), ("lv_bus", "p_lv_mw", "q_lv_mvar")],
    "trafo3w": [("hv_bus", "p_hv_mw", "q_hv_mvar"), ("mv_bus", "p_mv_mw", "q_mv_mvar"), ("lv_bus", "p_lv_mw", "q_lv_mvar")],
    "impedance": [("from_bus", "p_from_mw", "q_from_mvar"), ("to_bus", "p_to_mw", "q_to_mvar")],
    "tcsc": [("from_bus", "p_from_mw", "q_from_mvar"), ("to_bus", "p_to_mw", "q_to_mvar")],
    "dcline": [("from_bus", "p_from_mw", "q_from_mvar"), ("to_bus", "p_to_mw", "q_to_mvar")],
}


class UF:
    def __init__(self, items):
        self.p = {i: i for i in items}

    def find(self, a):
        p = self.p
        while p[a] != a:
            p[a] = p[p[a]]
            a = p[a]
        return a

    def union(self, a, b):
        ra, rb = self.find(a), self.find(b)
        if ra != rb:
            self.p[rb] = ra


def fused_nodes(net):
    """bus -> representative; buses joined by closed zero-impedance bus-bus switches are one electrical node"""
    uf = UF(list(net.bus.index))
    sw = net.switch
    if len(sw):
        z = sw["z_ohm"].fillna(0.0).values if "z_ohm" in sw else np.zeros(len(sw))
        for b, e, et, cl, zz in zip(sw.bus.values, sw.element.values, sw.et.values, sw.closed.values, z):
            if et == "b" and cl and zz == 0 and b in uf.p and e in uf.p:
                if net.bus.at[b, "in_service"] and net.bus.at[e, "in_service"]:
                    uf.union(b, e)
    return {b: uf.find(b) for b in net.bus.index}


def _nz(x):
    x = float(x)
    return 0.0 if math.isnan(x) else x


def nodal_balance(net, dc=False):
    """Returns (per-node mismatch dict node -> complex [MVA], per node detail, scale).
    Sum over bus elements (load convention) + sum over branch terminal flows (into the branch) must vanish."""
    node = fused_nodes(net)
    S = {}
    parts = {}

    def add(bus, p, q, what):
        if bus not in node:
            return
        n = node[bus]
        S[n] = S.get(n, 0j) + complex(_nz(p), 0.0 if dc else _nz(q))
        parts.setdefault(n, []).append((what, _nz(p), _nz(q)))

    for tab, (bcol, sign) in BUS_ELEMENTS.items():
        if tab in net and len(net[tab]) and ("res_" + tab) in net and len(net["res_" + tab]):
            res = net["res_" + tab]
            for idx, bus in zip(net[tab].index, net[tab][bcol].values):
                if idx in res.index:
                    add(bus, sign * res.at[idx, "p_mw"], sign * res.at[idx, "q_mvar"], "%s.%s" % (tab, idx))
    for tab, ends in BRANCHES.items():
        if tab in net and len(net[tab]) and ("res_" + tab) in net and len(net["res_" + tab]):
            res = net["res_" + tab]
            for bcol, pc, qc in ends:
                for idx, bus in zip(net[tab].index, net[tab][bcol].values):
                    if idx in res.index:
                        add(bus, res.at[idx, pc], res.at[idx, qc] if qc in res.columns else 0.0, "%s.%s.%s" % (tab, idx, bcol))
    # impedance switches
    if len(net.switch) and "res_switch" in net and len(net.res_switch) and "p_from_mw" in net.res_switch:
        rs = net.res_switch
        for idx in net.switch.index:
            if net.switch.at[idx, "et"] == "b" and idx in rs.index and not math.isnan(_nan(rs.at[idx, "p_from_mw"])):
                add(net.switch.at[idx, "bus"], rs.at[idx, "p_from_mw"], rs.at[idx, "q_from_mvar"], "switch.%s.bus" % idx)
                add(net.switch.at[idx, "element"], rs.at[idx, "p_to_mw"], rs.at[idx, "q_to_mvar"], "switch.%s.element" % idx)
    return node, S, parts


def _nan(x):
    try:
        return float(x)
    except Exception:
        return float("nan")


def bus_element_sum(net, dc=False, include_dcline=True):
    """per bus: net consumption of the bus elements from their result tables (complex)"""
    out = {b: 0j for b in net.bus.index}
    for tab, (bcol, sign) in BUS_ELEMENTS.items():
        if tab in net and len(net[tab]) and ("res_" + tab) in net and len(net["res_" + tab]):
            res = net["res_" + tab]
            for idx, bus in zip(net[tab].index, net[tab][bcol].values):
                if idx in res.index and bus in out:
                    out[bus] += sign * complex(_nz(res.at[idx, "p_mw"]), 0.0 if dc else _nz(res.at[idx, "q_mvar"]))
    if include_dcline and "dcline" in net and len(net.dcline) and len(net.res_dcline):
        res = net.res_dcline
        for idx in net.dcline.index:
            if idx in res.index:
                out[net.dcline.at[idx, "from_bus"]] += complex(_nz(res.at[idx, "p_from_mw"]), 0.0 if dc else _nz(res.at[idx, "q_from_mvar"]))
                out[net.dcline.at[idx, "to_bus"]] += complex(_nz(res.at[idx, "p_to_mw"]), 0.0 if dc else _nz(res.at[idx, "q_to_mvar"]))
    return out


# ---------------------------------------------------------------------------------------------------------
# table snapshots (DESIGN.md sec. 1.8)

def _is_input_table(key, val):
    return isinstance(val, pd.DataFrame) and not key.startswith("res_") and not key.startswith("_")


def snapshot(net):
    snap = {}
    for key in list(net.keys()):
        val = net[key]
        if _is_input_table(key, val):
            snap[key] = val.copy(deep=True)
            # object cells (lists, controller objects) need a real deep copy
            for c in snap[key].columns:
                if snap[key][c].dtype == object:
                    snap[key][c] = [copy.deepcopy(v) if not isinstance(v, (str, float, int, type(None))) else v
                                    for v in val[c].values]
    snap["__std_types__"] = copy.deepcopy(net.get("std_types", {}))
    snap["__user_pf_options__"] = copy.deepcopy(net.get("user_pf_options", {}))
    snap["__scalars__"] = {k: net[k] for k in ("sn_mva", "f_hz", "name") if k in net}
    return snap


def _cell_equal(a, b):
    if a is b:
        return True
    try:
        if isinstance(a, float) and isinstance(b, float):
            return a == b or (math.isnan(a) and math.isnan(b))
        na, nb = pd.isna(a), pd.isna(b)
        if isinstance(na, (bool, np.bool_)) and isinstance(nb, (bool, np.bool_)):
            if na and nb:
                return True
            if na != nb:
                return False
    except Exception:
        pass
    if hasattr(a, "__dict__") and hasattr(b, "__dict__") and type(a) is type(b):
        return _dict_equal(a.__dict__, b.__dict__)
    try:
        r = a == b
        if isinstance(r, (bool, np.bool_)):
            return bool(r)
        return bool(np.all(r))
    except Exception:
        return repr(a) == repr(b)


def _dict_equal(a, b):
    if a.keys() != b.keys():
        return False
    for k in a:
        va, vb = a[k], b[k]
        if isinstance(va, pd.DataFrame) or isinstance(va, pd.Series):
            if not (isinstance(vb, type(va)) and va.equals(vb)):
                return False
        elif isinstance(va, np.ndarray):
            if not (isinstance(vb, np.ndarray) and va.shape == vb.shape and np.array_equal(va, vb, equal_nan=va.dtype.kind == "f")):
                return False
        elif isinstance(va, dict) and isinstance(vb, dict):
            if not _dict_equal(va, vb):
                return False
        elif callable(va) and callable(vb):
            continue
        elif not _cell_equal(va, vb):
            return False
    return True


def compare_snapshot(before, net, allow_new_columns=True):
    """list of differences (strings) between a snapshot and the current net; empty = unchanged"""
    diffs = []
    for key, old in before.items():
        if key == "__std_types__":
            if not _dict_equal(old, net.get("std_types", {})):
                diffs.append("std_types changed")
            continue
        if key == "__user_pf_options__":
            if not _dict_equal(old, net.get("user_pf_options", {})):
                diffs.append("user_pf_options changed")
            continue
        if key == "__scalars__":
            for k, v in old.items():
                if net[k] != v:
                    diffs.append("net.%s changed %r -> %r" % (k, v, net[k]))
            continue
        if key not in net or not isinstance(net[key], pd.DataFrame):
            diffs.append("table %s vanished" % key)
            continue
        new = net[key]
        if list(old.index) != list(new.index):
            added = [i for i in new.index if i not in set(old.index)]
            removed = [i for i in old.index if i not in set(new.index)]
            if added or removed:
                diffs.append("%s: rows added %s removed %s" % (key, added[:5], removed[:5]))
            else:
                diffs.append("%s: row order changed" % key)
            continue
        for c in old.columns:
            if c not in new.columns:
                diffs.append("%s.%s: column removed" % (key, c))
                continue
            a, b = old[c].values, new[c].values
            if a.dtype.kind in "fiub" and b.dtype.kind in "fiub":
                try:
                    eq = np.array_equal(a.astype(float), b.astype(float), equal_nan=True)
                except Exception:
                    eq = False
                if not eq:
                    bad = [i for i, (x, y) in enumerate(zip(a, b)) if not _cell_equal(float(x), float(y))]
                    diffs.append("%s.%s: values changed at rows %s: %s -> %s" % (
                        key, c, [old.index[i] for i in bad[:3]], [a[i] for i in bad[:3]], [b[i] for i in bad[:3]]))
            else:
                bad = [i for i, (x, y) in enumerate(zip(a, b)) if not _cell_equal(x, y)]
                if bad:
                    diffs.append("%s.%s: values changed at rows %s: %r -> %r" % (
                        key, c, [old.index[i] for i in bad[:3]], [a[i] for i in bad[:3]], [b[i] for i in bad[:3]]))
        if not allow_new_columns:
            for c in new.columns:
                if c not in old.columns:
                    diffs.append("%s.%s: column added" % (key, c))
    for key in net.keys():
        if _is_input_table(key, net[key]) and key not in before and len(net[key]):
            diffs.append("new non-empty table %s" % key)
    return diffs


# ---------------------------------------------------------------------------------------------------------
# result comparison

def res_tables(net, prefix="res_"):
    return [k for k in net.keys() if k.startswith(prefix) and isinstance(net[k], pd.DataFrame) and len(net[k])]


def compare_results(net_a, net_b, atol=1e-6, rtol=1e-7, tables=None, skip_cols=(), angle_tol=1e-5):
    """NaN-aware comparison of result tables by (table, index, column); returns list of difference strings"""
    diffs = []
    tabs = tables if tables is not None else sorted(set(res_tables(net_a)) | set(res_tables(net_b)))
    for t in tabs:
        a = net_a[t] if t in net_a else pd.DataFrame()
        b = net_b[t] if t in net_b else pd.DataFrame()
        if len(a) != len(b) or list(a.index) != list(b.index):
            if sorted(a.index) == sorted(b.index):
                b = b.loc[a.index]
            else:
                diffs.append("%s: index differs (%d vs %d rows)" % (t, len(a), len(b)))
                continue
        for c in a.columns:
            if c in skip_cols or (t, c) in skip_cols:
                continue
            if c not in b.columns:
                diffs.append("%s.%s missing in second" % (t, c))
                continue
            try:
                x = a[c].values.astype(float)
                y = b[c].values.astype(float)
            except (TypeError, ValueError):
                bad = [i for i, (u, v) in enumerate(zip(a[c].values, b[c].values)) if not _cell_equal(u, v)]
                if bad:
                    diffs.append("%s.%s: %r vs %r" % (t, c, a[c].values[bad[0]], b[c].values[bad[0]]))
                continue
            nx, ny = np.isnan(x), np.isnan(y)
            if (nx != ny).any():
                i = int(np.flatnonzero(nx != ny)[0])
                diffs.append("%s.%s[%s]: %r vs %r (NaN pattern)" % (t, c, a.index[i], x[i], y[i]))
                continue
            d = np.abs(x - y)
            if "degree" in c:
                d = np.abs((x - y + 180.0) % 360.0 - 180.0)
                lim = angle_tol + 0 * d
            else:
                lim = atol + rtol * np.maximum(np.abs(x), np.abs(y))
            with np.errstate(invalid="ignore"):
                bad = (d > lim) & ~nx & ~(np.isinf(x) & (x == y))
            if bad.any():
                i = int(np.flatnonzero(bad)[np.argmax(d[bad])])
                diffs.append("%s.%s[%s]: %.10g vs %.10g (|d|=%.3g)" % (t, c, a.index[i], x[i], y[i], d[i]))
    return diffs


_EMPTY_INTERNAL = None


def strip_results(net):
    """fresh copy of the current state: deep copy of all input data, with result tables emptied and every internal
    cache (_ppc, lookups, _options, _is_elements, ...) reset to what a newly created network has (DESIGN.md C09)"""
    import pandapower as pp
    global _EMPTY_INTERNAL
    if _EMPTY_INTERNAL is None:
        e = pp.create_empty_network()
        _EMPTY_INTERNAL = {k: copy.deepcopy(v) for k, v in e.items() if k.startswith("_") and not k.startswith("_empty_res")}
    n = copy.deepcopy(net)
    for k in list(n.keys()):
        if k.startswith("_") and not k.startswith("_empty_res"):
            if k in _EMPTY_INTERNAL:
                n[k] = copy.deepcopy(_EMPTY_INTERNAL[k])
            else:
                del n[k]
        elif k.startswith("res_") and isinstance(n[k], pd.DataFrame):
            emp = "_empty_" + k
            n[k] = n[emp].copy() if emp in n and isinstance(n[emp], pd.DataFrame) else n[k].iloc[0:0].copy()
    n["converged"] = False
    n["OPF_converged"] = False
    return n
