"""Generator for C25: standard types (built-in enumeration + Hypothesis-drawn type dictionaries) and the context in
which they are applied.  Everything is plain JSON.

case = {"el":   "line" | "line_dc" | "trafo" | "trafo3w" | "fuse",
        "name": name of the tested type,
        "data": None (built-in type of that name) | {parameter: value}  (created with create_std_type),
        "old":  {"name":…, "data": None | {…}}   type the element has before change_std_type (not for fuse),
        "pre":  "none" | "std" | "rich" | "addcols"   state of the element table before the tested element is created
                 none    - empty table
                 std     - one element created from the old type
                 rich    - one element created with create_*_from_parameters and every optional documented column
                 addcols - as std, then add_temperature_coefficient(net) and add_zero_impedance_parameters(net)
        "args": element arguments that do not belong to the type (length_km, parallel, df, tap_off, …),
        "vn":   bus voltage for line / line_dc nets,
        "calc": {"pf": {...runpp options...} | None, "sc": None | "3ph" | "1ph", "sc_case": "max" | "min"},
        "mgmt": {"new_name":…, "curve": 0|1}}
"""
import copy

from hypothesis import strategies as st

from pbt.netgen import q

ELEMENTS = ("line", "line_dc", "trafo", "trafo3w", "fuse")
PRE = ("none", "std", "rich", "addcols")

REQUIRED = {
    "line": ["c_nf_per_km", "r_ohm_per_km", "x_ohm_per_km", "max_i_ka"],
    "line_dc": ["r_ohm_per_km", "max_i_ka"],
    "trafo": ["sn_mva", "vn_hv_kv", "vn_lv_kv", "vk_percent", "vkr_percent", "pfe_kw", "i0_percent", "shift_degree"],
    "trafo3w": ["sn_hv_mva", "sn_mv_mva", "sn_lv_mva", "vn_hv_kv", "vn_mv_kv", "vn_lv_kv", "vk_hv_percent", "vk_mv_percent",
                "vk_lv_percent", "vkr_hv_percent", "vkr_mv_percent", "vkr_lv_percent", "pfe_kw", "i0_percent",
                "shift_mv_degree", "shift_lv_degree"],
    "fuse": ["fuse_type", "i_rated_a"],
}
LINE_ZERO = ("r0_ohm_per_km", "x0_ohm_per_km", "c0_nf_per_km")
TRAFO_ZERO = ("vk0_percent", "vkr0_percent", "mag0_percent", "mag0_rx", "si0_hv_partial")
TAP_KEYS = ("tap_side", "tap_neutral", "tap_min", "tap_max", "tap_step_percent", "tap_step_degree", "tap_changer_type")
TAP2_KEYS = tuple(k.replace("tap_", "tap2_") for k in TAP_KEYS)
VECTOR_GROUPS_SC = ("Dyn", "Yyn", "Yzn", "YNyn")          # doc/elements/trafo_par.csv
NAMES = ("T1", "my type", "Typ Ä 4x50", "63 MVA 110/20 kV (gen)", "x/y_z", "a" * 40, "0")

LINE_LEVEL = {0.4: dict(l=(0.02, 0.3)), 10.0: dict(l=(0.1, 5)), 20.0: dict(l=(0.2, 8)), 110.0: dict(l=(1, 30))}


def builtin_types():
    from pandapower.std_types import basic_std_types
    return copy.deepcopy(basic_std_types())


def key_class(el, key):
    """root-cause class of a type parameter (used in failure signatures)"""
    if key in REQUIRED[el]:
        return "required"
    if key in LINE_ZERO or key in TRAFO_ZERO or key == "g0_us_per_km":
        return "zero-seq"
    if key.startswith("tap2_"):
        return "tap2"
    if key.startswith("tap_"):
        return "tap"
    return key


# ---------------------------------------------------------------------------------------------- type dictionaries
@st.composite
def line_type(draw, force=()):
    d = {"c_nf_per_km": draw(q(0, 400, 1)), "r_ohm_per_km": draw(q(0.01, 1.2, 4)), "x_ohm_per_km": draw(q(0.02, 0.5, 4)),
         "max_i_ka": draw(q(0.05, 2.0, 3))}
    if draw(st.booleans()):
        d["type"] = draw(st.sampled_from(["cs", "ol"]))
    if draw(st.booleans()):
        d["q_mm2"] = draw(st.sampled_from([50, 95, 240, 490.5]))
    if draw(st.integers(0, 2)) > 0 or "alpha" in force:
        d["alpha"] = draw(st.sampled_from([4.03e-3, 3.93e-3, 0.0, 1e-3]))
    if draw(st.integers(0, 3)) == 0:
        d["voltage_rating"] = draw(st.sampled_from(["LV", "MV", "HV"]))
    if draw(st.integers(0, 2)) == 0:
        d["g_us_per_km"] = draw(q(0, 5, 2))
    if draw(st.booleans()) or "zero" in force:
        d["r0_ohm_per_km"] = draw(q(0.05, 3, 4))
        d["x0_ohm_per_km"] = draw(q(0.05, 2, 4))
        d["c0_nf_per_km"] = draw(q(0, 500, 1))
    if draw(st.integers(0, 3)) == 0 or "endtemp" in force:
        d["endtemp_degree"] = draw(st.sampled_from([70.0, 80.0, 160.0, 250.0]))
    return d


@st.composite
def line_dc_type(draw, force=()):
    d = {"r_ohm_per_km": draw(q(0.005, 0.5, 4)), "max_i_ka": draw(q(0.2, 3.0, 3))}
    if draw(st.booleans()):
        d["type"] = draw(st.sampled_from(["cs", "ol"]))
    if draw(st.booleans()):
        d["q_mm2"] = draw(st.sampled_from([95, 400, 1200]))
    if draw(st.integers(0, 2)) > 0:
        d["alpha"] = draw(st.sampled_from([4.03e-3, 3.93e-3, 1e-3]))
    if draw(st.integers(0, 2)) == 0:
        d["g_us_per_km"] = draw(q(0, 1, 3))
    return d


@st.composite
def tap_set(draw, sides, prefix="tap_"):
    neutral = draw(st.integers(-2, 2))
    lo, hi = draw(st.integers(1, 9)), draw(st.integers(1, 9))
    ctype = draw(st.sampled_from(["Ratio", "Ratio", "Symmetrical", "Ideal"]))
    d = {"side": draw(st.sampled_from(sides)), "neutral": neutral, "min": neutral - lo, "max": neutral + hi,
         # build_branch rejects an ideal phase shifter with both step sizes set ("Both tap_step_degree and tap_step_percent set")
         "step_percent": draw(q(0.25, 2.5, 2)) if ctype != "Ideal" else draw(st.sampled_from([0.0, 0])),
         "step_degree": draw(q(0.5, 3, 1)) if ctype == "Ideal" else draw(st.sampled_from([0, 0, 0.0, 1.5])),
         "changer_type": ctype}
    return {prefix + k: v for k, v in d.items()}


@st.composite
def trafo_type(draw, force=()):
    hv = draw(st.sampled_from([380.0, 220.0, 110.0, 110, 20.0, 10.0]))
    lv = draw(st.sampled_from([v for v in (110.0, 20.0, 10.0, 10.5, 0.4) if v < hv]))
    sn = draw(q(0.1, 1, 2)) if lv < 1 else draw(q(5, 200, 1))
    vk = draw(q(3, 18, 2))
    vkr = draw(q(0.0, min(vk, 1.5), 3))
    pfe = draw(q(0, sn * 1.5, 2))
    i0 = round(pfe / sn / 10.0 + draw(q(0, 0.5, 3)), 6)
    d = {"sn_mva": sn, "vn_hv_kv": hv, "vn_lv_kv": lv, "vk_percent": vk, "vkr_percent": vkr, "pfe_kw": pfe,
         "i0_percent": i0, "shift_degree": draw(st.sampled_from([0, 0.0, 30, 150, 150.0, 180, -30, 330]))}
    vg = None
    if draw(st.booleans()) or "zero" in force:
        d["vk0_percent"] = draw(q(3, 18, 2))
        d["vkr0_percent"] = draw(q(0, 1.5, 3))
        d["mag0_percent"] = draw(st.sampled_from([100.0, 10.0, 500.0]))
        d["mag0_rx"] = draw(st.sampled_from([0.0, 0.1]))
        d["si0_hv_partial"] = draw(st.sampled_from([0.9, 0.5, 0.1]))
        vg = draw(st.sampled_from(VECTOR_GROUPS_SC))
    elif draw(st.booleans()):
        vg = draw(st.sampled_from(["Dyn5", "YNd5", "Yy0", "Dyn"]))
    if vg is not None:
        d["vector_group"] = vg
    if draw(st.integers(0, 3)) > 0:
        d.update(draw(tap_set(["hv", "lv"])))
        if draw(st.integers(0, 2)) == 0:
            d.update(draw(tap_set(["hv", "lv"], "tap2_")))
    if draw(st.integers(0, 3)) == 0:
        d["trafo_characteristic_table"] = False
    if draw(st.integers(0, 5)) == 0:
        d["weight_t"] = draw(q(0.5, 90, 1))        # additional parameter, documented as allowed
    return d


@st.composite
def trafo3w_type(draw, force=()):
    hv, mv, lv = draw(st.sampled_from([(110.0, 20.0, 10.0), (110, 10, 10), (220.0, 110.0, 20.0), (380.0, 110.0, 10.0),
                                       (20.0, 10.0, 0.4)]))
    sh = draw(q(10, 200, 1)) if lv >= 1 else draw(q(0.4, 2, 2))
    sm = round(sh * draw(st.sampled_from([1.0, 0.6, 0.4])), 3)
    sl = round(sh * draw(st.sampled_from([1.0, 0.6, 0.4])), 3)
    d = {"sn_hv_mva": sh, "sn_mv_mva": sm, "sn_lv_mva": sl, "vn_hv_kv": hv, "vn_mv_kv": mv, "vn_lv_kv": lv}
    for s in ("hv", "mv", "lv"):
        d["vk_%s_percent" % s] = draw(q(8, 14, 2))
        d["vkr_%s_percent" % s] = draw(q(0.1, 0.5, 3))
    pfe = draw(q(0, min(sh, sm, sl) * 1.0, 2))
    d["pfe_kw"] = pfe
    d["i0_percent"] = round(pfe / min(sh, sm, sl) / 10.0 + draw(q(0, 0.9, 3)), 6)
    d["shift_mv_degree"] = draw(st.sampled_from([0, 0.0, 30, 150]))
    d["shift_lv_degree"] = draw(st.sampled_from([0, 0.0, 30, 150.0]))
    if draw(st.booleans()):
        d["vector_group"] = draw(st.sampled_from(["YN0yn0yn0", "YNyd"]))
    if draw(st.integers(0, 3)) > 0:
        t = draw(tap_set(["hv", "mv", "lv"]))
        if draw(st.booleans()):
            t.pop("tap_step_degree")            # as the built-in 3W types
        d.update(t)
    if draw(st.integers(0, 3)) == 0:
        d["trafo_characteristic_table"] = False
    return d


@st.composite
def curve(draw, i_rated):
    n = draw(st.integers(3, 8))
    mult = sorted(draw(st.lists(st.integers(12, 600), min_size=n, max_size=n, unique=True)))
    x = [round(i_rated * m / 10.0, 3) for m in mult]
    ts = sorted(draw(st.lists(st.integers(1, 10 ** 7), min_size=n, max_size=n, unique=True)), reverse=True)
    t = [v / 1000.0 for v in ts]
    return x, t


@st.composite
def fuse_type(draw, name):
    ir = draw(st.sampled_from([10.0, 16.0, 63.0, 100.0, 400.0, 31.5]))
    d = {"fuse_type": name, "i_rated_a": ir}
    if draw(st.booleans()):
        x, t = draw(curve(ir))
        d.update({"t_avg": t, "t_min": 0, "t_total": 0, "x_avg": x, "x_min": 0, "x_total": 0})
    else:
        x1, t1 = draw(curve(ir))
        x2, t2 = draw(curve(ir))
        d.update({"t_avg": 0, "t_min": t1, "t_total": t2, "x_avg": 0, "x_min": x1, "x_total": x2})
    return d


TYPE_STRATEGY = {"line": line_type, "line_dc": line_dc_type, "trafo": trafo_type, "trafo3w": trafo3w_type}


def _matching_old(el, data, builtins):
    """built-in types of the element that fit the buses of the tested type (same rated voltages)"""
    if el in ("line", "line_dc"):
        return sorted(builtins[el])
    keys = [k for k in REQUIRED[el] if k.startswith("vn_")]
    return sorted(n for n, t in builtins[el].items() if all(float(t[k]) == float(data[k]) for k in keys))


@st.composite
def args_for(draw, el, data, force=()):
    a = {}
    if el in ("line", "line_dc"):
        a["parallel"] = draw(st.sampled_from([1, 1, 2, 3]))
        a["df"] = draw(st.sampled_from([1.0, 1.0, 0.8]))
        a["length_f"] = draw(q(0.0, 1.0, 2))      # position in the length range of the voltage level
        a["max_loading_percent"] = draw(st.sampled_from([None, None, 80.0]))
        a["temperature_degree_celsius"] = draw(st.sampled_from([None, 20.0, 55.0, 80.0][1 if "alpha" in force else 0:]))
    elif el == "trafo":
        a["parallel"] = draw(st.sampled_from([1, 1, 2]))
        a["df"] = draw(st.sampled_from([1.0, 1.0, 0.9]))
        a["max_loading_percent"] = draw(st.sampled_from([None, None, 80.0]))
        a["tap_off"] = None
        a["tap2_off"] = None
        if "tap_neutral" in data and draw(st.booleans()):
            a["tap_off"] = draw(st.integers(data["tap_min"] - data["tap_neutral"], data["tap_max"] - data["tap_neutral"]))
        if "tap2_neutral" in data and draw(st.booleans()):
            a["tap2_off"] = draw(st.integers(data["tap2_min"] - data["tap2_neutral"],
                                             data["tap2_max"] - data["tap2_neutral"]))
    elif el == "trafo3w":
        a["max_loading_percent"] = draw(st.sampled_from([None, None, 80.0]))
        a["tap_at_star_point"] = draw(st.booleans())
        a["tap_off"] = None
        if "tap_neutral" in data and draw(st.booleans()):
            a["tap_off"] = draw(st.integers(data["tap_min"] - data["tap_neutral"], data["tap_max"] - data["tap_neutral"]))
    return a


@st.composite
def calc_for(draw, el):
    c = {"pf": None, "sc": None, "sc_case": "max"}
    k = draw(st.integers(0, 5))
    if k <= 3 or el == "line_dc":
        c["pf"] = {"calculate_voltage_angles": draw(st.sampled_from([True, True, False])),
                   "trafo_model": draw(st.sampled_from(["t", "pi"])),
                   "consider_line_temperature": draw(st.booleans())}
    if el != "line_dc" and k >= 3:
        c["sc"] = draw(st.sampled_from(["3ph", "1ph", "1ph"]))
        c["sc_case"] = draw(st.sampled_from(["max", "min"]))
    return c


@st.composite
def case(draw, tier, builtins):
    el = draw(st.sampled_from(["line", "line", "line", "line_dc", "trafo", "trafo", "trafo", "trafo3w", "trafo3w", "fuse", "fuse"]))
    name = draw(st.sampled_from(NAMES))
    if draw(st.integers(0, 9)) == 0:
        name = draw(st.sampled_from(sorted(builtins[el])))      # overwrites a built-in type
    new_name = draw(st.sampled_from([n for n in NAMES if n != name] + ["renamed"]))
    if el == "fuse":
        data = draw(fuse_type(name))
        return {"el": el, "name": name, "data": data, "old": None, "pre": "none", "args": {}, "vn": 0.4,
                "calc": {"pf": None, "sc": None, "sc_case": "max"},
                "mgmt": {"new_name": new_name, "curve": draw(st.integers(0, 1))}}
    # the calculation is drawn first; in 3 of 4 cases the optional parameter groups it needs (zero-sequence data for
    # 1ph, endtemp_degree for the min case, alpha for the line temperature) are forced into the type(s)
    calc = draw(calc_for(el))
    want = set()
    if calc["sc"] == "1ph":
        want.add("zero")
    if calc["sc"] is not None and calc["sc_case"] == "min":
        want.add("endtemp")
    if calc["pf"] is not None and calc["pf"]["consider_line_temperature"]:
        want.add("alpha")
    force = tuple(sorted(want)) if draw(st.integers(0, 3)) > 0 else ()
    data = draw(TYPE_STRATEGY[el](force))
    cand = [n for n in _matching_old(el, data, builtins) if n != name]
    if cand and draw(st.booleans()):
        old = {"name": draw(st.sampled_from(cand)), "data": None}
    else:
        od = draw(TYPE_STRATEGY[el](force))
        for k in REQUIRED[el]:
            if k.startswith("vn_"):
                od[k] = data[k]
        old = {"name": draw(st.sampled_from([n for n in ("old type", "T0", "renamed2") if n not in (name, new_name)])),
               "data": od}
    vn = draw(st.sampled_from([0.4, 10.0, 20.0, 110.0])) if el == "line" else 110.0
    pre = draw(st.sampled_from(PRE + ("rich", "none") if force else PRE))
    return {"el": el, "name": name, "data": data, "old": old, "pre": pre,
            "args": draw(args_for(el, data, force)), "vn": vn, "calc": calc,
            "mgmt": {"new_name": new_name, "curve": 0}}


# ---------------------------------------------------------------------------------------------- exhaustive part
VOLTAGE_OF_RATING = {"LV": 0.4, "MV": 20.0, "HV": 110.0}


def builtin_cases():
    """one case per built-in type of every element (106 types); the context (table state, old type, arguments,
    calculation) is varied deterministically with the position in the sorted list"""
    b = builtin_types()
    pfo = [{"calculate_voltage_angles": True, "trafo_model": "t", "consider_line_temperature": False},
           {"calculate_voltage_angles": True, "trafo_model": "pi", "consider_line_temperature": True},
           {"calculate_voltage_angles": False, "trafo_model": "t", "consider_line_temperature": False}]
    for el in ELEMENTS:
        names = sorted(b[el])
        for i, name in enumerate(names):
            data = b[el][name]
            mg = {"new_name": name + " (renamed)", "curve": i % 2}
            if el == "fuse":
                yield {"el": el, "name": name, "data": None, "old": None, "pre": "none", "args": {}, "vn": 0.4,
                       "calc": {"pf": None, "sc": None, "sc_case": "max"}, "mgmt": mg}
                continue
            cand = [n for n in _matching_old(el, data, b) if n != name]
            if cand:
                old = {"name": cand[(i * 7 + 3) % len(cand)], "data": None}
            else:   # no other built-in type with these rated voltages: a generated-like explicit old type
                od = copy.deepcopy(data)
                for k in list(od):
                    if k.startswith("tap_") or k == "vector_group":
                        od.pop(k)
                od[[k for k in REQUIRED[el] if k.startswith("vk")][0]] = 9.5
                old = {"name": "old type", "data": od}
            if el in ("line", "line_dc"):
                args = {"parallel": 1 + i % 2, "df": [1.0, 0.8][(i // 2) % 2], "length_f": 0.3,
                        "max_loading_percent": [None, 80.0][i % 2], "temperature_degree_celsius": [None, 60.0][(i // 3) % 2]}
            elif el == "trafo":
                args = {"parallel": 1 + (i // 2) % 2, "df": 1.0, "max_loading_percent": None,
                        "tap_off": [None, 1, -2][i % 3], "tap2_off": None}
            else:
                args = {"max_loading_percent": None, "tap_at_star_point": bool(i % 2), "tap_off": [None, 3][i % 2]}
            vn = VOLTAGE_OF_RATING.get(data.get("voltage_rating"), 110.0) if el == "line" else 110.0
            # every built-in type in every table state
            for j, pre in enumerate(PRE):
                calc = {"pf": pfo[(i + j) % 3], "sc": None if el == "line_dc" else ["3ph", "1ph"][(i + j) % 2],
                        "sc_case": ["max", "min"][(i // 2 + j) % 2]}
                yield {"el": el, "name": name, "data": None, "old": old, "pre": pre, "args": args, "vn": vn,
                       "calc": calc, "mgmt": mg}
