"""Small shared types and helpers for property modules."""
import contextlib
import io
import math


class Result:
    """Outcome of one oracle evaluation on one case (never raised for property failures)."""
    __slots__ = ("nontrivial", "labels", "failures", "skipped")

    def __init__(self, nontrivial=False, labels=None, failures=None, skipped=None):
        self.nontrivial = nontrivial
        self.labels = labels if labels is not None else []
        self.failures = failures if failures is not None else []   # list of (signature:str, detail:dict)
        self.skipped = skipped

    def fail(self, sig, **detail):
        self.failures.append((sig, detail))

    def label(self, *ls):
        for l in ls:
            if l not in self.labels:
                self.labels.append(l)


# numerical tolerances (DESIGN.md sec. 1.6)
TOL_P = 1e-5          # MVA absolute floor
TOL_P_REL = 1e-7
TOL_VM = 1e-8
TOL_VA = 1e-6
TOL_I_REL = 1e-6


def close(a, b, atol=TOL_P, rtol=TOL_P_REL):
    if a is None or b is None:
        return a is b
    if isinstance(a, float) and math.isnan(a):
        return isinstance(b, float) and math.isnan(b)
    return abs(a - b) <= atol + rtol * max(abs(a), abs(b))


def pf_tol(sn_mva):
    """tolerance_mva for an absolute accuracy of 1e-9 MVA: the solver compares the p.u. mismatch (base net.sn_mva)
    with tolerance_mva, so the effective tolerance in MVA is tolerance_mva * sn_mva"""
    return 1e-9 / sn_mva


@contextlib.contextmanager
def silence():
    with contextlib.redirect_stdout(io.StringIO()), contextlib.redirect_stderr(io.StringIO()):
        yield


def exc_sig(e):
    """(type, innermost pandapower frame) signature of an exception."""
    import traceback
    tb = traceback.extract_tb(e.__traceback__)
    frame = None
    for fr in tb:
        if "/pandapower/" in fr.filename:
            frame = fr
    where = "%s:%s" % (frame.filename.split("/pandapower/", 1)[1], frame.name) if frame else "?"
    return "%s@%s" % (type(e).__name__, where)


def pf_outcome(e):
    """classify an exception raised by a power-flow style calculation on a generated (valid) network:
    ("skip", reason) for documented outcomes, ("fail", signature) for a crash"""
    import pandapower as pp
    from pandapower.auxiliary import LoadflowNotConverged
    name = type(e).__name__
    if isinstance(e, LoadflowNotConverged) or name in ("LoadflowNotConverged", "OPFNotConverged", "ControllerNotConverged",
                                                        "NetCalculationNotConverged"):
        return "skip", "not-converged"
    if isinstance(e, (UserWarning, NotImplementedError)):
        return "skip", "rejected:" + exc_sig(e)
    return "fail", "crash/" + exc_sig(e)
