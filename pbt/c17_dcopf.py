"""Independent DC optimal power flow used as the reference of C17, oracle B (DESIGN.md sec. 2, C17).

Built only from the element tables: own electrical nodes (union-find over closed zero-impedance bus-bus switches), own series
reactances (line x*l/parallel; transformer from vk/vkr referred to the tap-adjusted LV rated voltage, T->pi conversion of the
magnetising branch, tap magnitude and off-nominal rated voltages, phase shift; impedance xft; impedance switches with the r/x
ratio of rundcopp), table limits (max_loading_percent * rating), unit bounds and sign conventions of the tables, the documented
dcline loss relation.  min sum(user cost)  s.t.  B theta = injections, |flow| <= limit, bounds.
Solved with scipy HiGHS (linear and piecewise linear costs through epigraph variables) or trust-constr / SLSQP (convex quadratic).
No pandapower calculation code is called; only result tables are read for the self check of the susceptance model.
"""
import math

import numpy as np

from pbt import refmodel

SWITCH_RX_RATIO_DCOPP = 0.5      # default of rundcopp
BIG = 1e8


def _f(x, default=float("nan")):
    try:
        x = float(x)
    except (TypeError, ValueError):
        return default
    return x


def _fin(x):
    return not (math.isnan(x) or math.isinf(x))


def _flag(tab, idx, default):
    if "controllable" not in tab.columns:
        return default
    v = tab.at[idx, "controllable"]
    if v is None or (isinstance(v, float) and math.isnan(v)):
        return default
    return bool(v)


class Unsupported(Exception):
    pass


def build_model(net, impedance_rating=False):
    """-> dict(nodes, branches, units, fixed) ; raises Unsupported"""
    bus_ok = {b: bool(net.bus.at[b, "in_service"]) for b in net.bus.index}
    parent = {b: b for b in net.bus.index}

    def find(a):
        while parent[a] != a:
            parent[a] = parent[parent[a]]
            a = parent[a]
        return a

    sw = net.switch
    open_at = {"l": set(), "t": set(), "t3": set()}
    zswitches = []
    for i in sw.index:
        et, closed = sw.at[i, "et"], bool(sw.at[i, "closed"])
        if et == "b":
            a, b = sw.at[i, "bus"], sw.at[i, "element"]
            z = _f(sw.at[i, "z_ohm"], 0.0) if "z_ohm" in sw.columns else 0.0
            z = 0.0 if math.isnan(z) else z
            if closed and bus_ok.get(a) and bus_ok.get(b):
                if z == 0:
                    ra, rb = find(a), find(b)
                    if ra != rb:
                        parent[rb] = ra
                else:
                    zswitches.append((i, a, b, z))
        elif not closed:
            open_at[et].add(sw.at[i, "element"])
    if len(net.trafo3w) and net.trafo3w.in_service.any():
        raise Unsupported("trafo3w")
    if len(net.xward) and net.xward.in_service.any():
        raise Unsupported("xward")
    for t in ("load", "sgen", "storage", "gen"):
        if len(net[t]) and (net[t].scaling[net[t].in_service] != 1.0).any():
            raise Unsupported("scaling")
    vn = {b: float(net.bus.at[b, "vn_kv"]) for b in net.bus.index}
    branches = []     # (name, node_from, node_to, b_mw_per_rad, shift_rad, limit_mw or None)
    for i in net.line.index:
        r = net.line.loc[i]
        if not r.in_service or i in open_at["l"] or not (bus_ok[r.from_bus] and bus_ok[r.to_bus]):
            continue
        x = r.x_ohm_per_km * r.length_km / r.parallel
        lim = None
        ml = _f(r.get("max_loading_percent"))
        if _fin(ml) and ml != 0:
            lim = ml / 100.0 * r.max_i_ka * r.df * r.parallel * math.sqrt(3) * vn[r.from_bus]
        branches.append((("line", int(i)), find(r.from_bus), find(r.to_bus), vn[r.from_bus] ** 2 / x, 0.0, lim))
    for i in net.trafo.index:
        r = net.trafo.loc[i]
        if not r.in_service or i in open_at["t"] or not (bus_ok[r.hv_bus] and bus_ok[r.lv_bus]):
            continue
        vh, vl, sh = refmodel.tap_adjust(r.vn_hv_kv, r.vn_lv_kv, float(r.shift_degree), r.get("tap_changer_type"), r.get("tap_side"),
                                         r.get("tap_pos"), r.get("tap_neutral"), r.get("tap_step_percent"), r.get("tap_step_degree"))
        zk = r.vk_percent / 100.0 * vl ** 2 / r.sn_mva
        rk = r.vkr_percent / 100.0 * vl ** 2 / r.sn_mva
        xk = math.sqrt(max(zk ** 2 - rk ** 2, 0.0))
        rr = _f(r.get("leakage_resistance_ratio_hv"), 0.5) if "leakage_resistance_ratio_hv" in net.trafo.columns else 0.5
        xr = _f(r.get("leakage_reactance_ratio_hv"), 0.5) if "leakage_reactance_ratio_hv" in net.trafo.columns else 0.5
        rr = 0.5 if math.isnan(rr) else rr
        xr = 0.5 if math.isnan(xr) else xr
        ym_abs = r.i0_percent / 100.0 * r.sn_mva / vl ** 2
        gm = r.pfe_kw / 1000.0 / vl ** 2
        bm = math.sqrt(max(ym_abs ** 2 - gm ** 2, 0.0))
        ym = complex(gm, -bm)
        za, zb = complex(rk * rr, xk * xr), complex(rk * (1 - rr), xk * (1 - xr))
        zser = za + zb + za * zb * ym            # series element of the pi equivalent of the T circuit
        x = zser.imag / r.parallel
        vbh, vbl = vn[r.hv_bus], vn[r.lv_bus]
        tap = (vh / vl) / (vbh / vbl)
        lim = None
        ml = _f(r.get("max_loading_percent"))
        if _fin(ml) and ml != 0:
            lim = ml / 100.0 * r.sn_mva * r.df * r.parallel
        branches.append((("trafo", int(i)), find(r.hv_bus), find(r.lv_bus), vbl ** 2 / (x * tap), math.radians(sh), lim))
    for i in net.impedance.index:
        r = net.impedance.loc[i]
        if not r.in_service or not (bus_ok[r.from_bus] and bus_ok[r.to_bus]):
            continue
        # an impedance has no declared loading limit; impedance_rating=True reproduces the undeclared one of the OPF (sn_mva)
        branches.append((("impedance", int(i)), find(r.from_bus), find(r.to_bus), r.sn_mva / r.xft_pu, 0.0,
                         float(r.sn_mva) if impedance_rating else None))
    for i, a, b, z in zswitches:
        x = z / math.sqrt(1 + SWITCH_RX_RATIO_DCOPP ** 2)
        branches.append((("switch", int(i)), find(a), find(b), vn[a] ** 2 / x, 0.0, None))
    # energized nodes: connected through branches to an in-service slack
    nodes = sorted({find(b) for b in net.bus.index if bus_ok[b]})
    adj = {n: set() for n in nodes}
    for _, a, b, *_ in branches:
        adj[a].add(b)
        adj[b].add(a)
    slack_nodes = []
    for i in net.ext_grid.index:
        if net.ext_grid.at[i, "in_service"] and bus_ok[net.ext_grid.at[i, "bus"]]:
            slack_nodes.append(find(net.ext_grid.at[i, "bus"]))
    for i in net.gen.index:
        if net.gen.at[i, "in_service"] and bool(net.gen.at[i, "slack"]) and bus_ok[net.gen.at[i, "bus"]]:
            slack_nodes.append(find(net.gen.at[i, "bus"]))
    comp = {}
    for s in slack_nodes:
        if s in comp:
            continue
        stack = [s]
        comp[s] = s
        while stack:
            a = stack.pop()
            for b in adj[a]:
                if b not in comp:
                    comp[b] = s
                    stack.append(b)
    live = lambda b: bus_ok[b] and find(b) in comp     # noqa: E731
    branches = [br for br in branches if br[1] in comp and br[2] in comp]
    units = []     # dict(name, et, idx, lo, hi, terms=[(node, coefficient)], const=[(node, value)])
    fixed = {}     # node -> injection (MW)

    def add_fixed(b, p):
        n = find(b)
        fixed[n] = fixed.get(n, 0.0) + p

    def bounds(tab, i, lo_col="min_p_mw", hi_col="max_p_mw"):
        lo = _f(tab.at[i, lo_col]) if lo_col in tab.columns else float("nan")
        hi = _f(tab.at[i, hi_col]) if hi_col in tab.columns else float("nan")
        return (lo if _fin(lo) and abs(lo) < BIG else None), (hi if _fin(hi) and abs(hi) < BIG else None)

    for i in net.ext_grid.index:
        b = net.ext_grid.at[i, "bus"]
        if net.ext_grid.at[i, "in_service"] and live(b):
            lo, hi = bounds(net.ext_grid, i)
            units.append(dict(et="ext_grid", idx=int(i), lo=lo, hi=hi, terms=[(find(b), 1.0)]))
    for i in net.gen.index:
        b = net.gen.at[i, "bus"]
        if net.gen.at[i, "in_service"] and live(b):
            if _flag(net.gen, i, True):
                lo, hi = bounds(net.gen, i)
                units.append(dict(et="gen", idx=int(i), lo=lo, hi=hi, terms=[(find(b), 1.0)]))
            else:
                p = float(net.gen.at[i, "p_mw"])
                units.append(dict(et="gen", idx=int(i), lo=p, hi=p, terms=[(find(b), 1.0)]))
    for t, sign in (("sgen", 1.0), ("load", -1.0), ("storage", -1.0)):
        for i in net[t].index:
            b = net[t].at[i, "bus"]
            if not (net[t].at[i, "in_service"] and live(b)):
                continue
            if _flag(net[t], i, False):
                lo, hi = bounds(net[t], i)
                units.append(dict(et=t, idx=int(i), lo=lo, hi=hi, terms=[(find(b), sign)]))
            else:
                add_fixed(b, sign * float(net[t].at[i, "p_mw"]) * float(net[t].at[i, "scaling"]))
    for i in net.ward.index:
        b = net.ward.at[i, "bus"]
        if net.ward.at[i, "in_service"] and live(b):
            add_fixed(b, -(float(net.ward.at[i, "ps_mw"]) + float(net.ward.at[i, "pz_mw"])))
    for i in net.shunt.index:
        b = net.shunt.at[i, "bus"]
        if net.shunt.at[i, "in_service"] and live(b):
            r = net.shunt.loc[i]
            add_fixed(b, -float(r.p_mw) * float(r.step) * (vn[b] / float(r.vn_kv)) ** 2)
    for i in net.dcline.index:
        r = net.dcline.loc[i]
        if not r.in_service:
            continue
        lf, lt = bus_ok[r.from_bus] and live(r.from_bus), bus_ok[r.to_bus] and live(r.to_bus)
        if not (lf and lt):
            if lf or lt or bus_ok[r.from_bus] or bus_ok[r.to_bus]:
                raise Unsupported("dcline-at-dead-bus")
            continue
        hi = _f(r.max_p_mw)
        # one-directional (documented): power leaves the line at the to bus as well, p_from*(1-l) - loss_mw >= 0
        lo = max(0.0, float(r.loss_mw) / (1.0 - float(r.loss_percent) / 100.0))
        units.append(dict(et="dcline", idx=int(i), lo=lo, hi=hi if _fin(hi) else None,
                          terms=[(find(r.from_bus), -1.0), (find(r.to_bus), 1.0 - float(r.loss_percent) / 100.0)]))
        add_fixed(r.to_bus, -float(r.loss_mw))
    return dict(nodes=sorted(comp), comp=comp, branches=branches, units=units, fixed=fixed, find=find, live=live)


def self_check(net, model, sn):
    """the susceptance model must reproduce pandapower's own DC flows from pandapower's own angles (else the reference is unsupported)"""
    th = {}
    for b in net.bus.index:
        va = _f(net.res_bus.at[b, "va_degree"])
        if _fin(va):
            th.setdefault(model["find"](b), math.radians(va))
    tabcol = {"line": ("res_line", "p_from_mw"), "trafo": ("res_trafo", "p_hv_mw"), "impedance": ("res_impedance", "p_from_mw")}
    worst = 0.0
    for (kind, i), a, b, bb, sh, lim in model["branches"]:
        if kind not in tabcol or a not in th or b not in th:
            continue
        got = _f(net[tabcol[kind][0]].at[i, tabcol[kind][1]])
        if not _fin(got):
            continue
        p = bb * (th[a] - th[b] - sh)
        worst = max(worst, abs(p - got) / (1e-4 * max(1.0, sn / 100.0) + 1e-5 * abs(got)))
    return worst


def _cost_terms(costs, maps, model, net):
    """per unit: list of cost entries; plus constant cost of entries on elements that are not dispatched"""
    by_unit = {}
    const = 0.0
    from pbt import c16_gen as gen
    uidx = {(u["et"], u["idx"]): k for k, u in enumerate(model["units"])}
    for c in costs:
        idx = int(maps[c["et"]][c["k"]])
        if c["kind"] == "pwl" and c["power_type"] == "q":
            continue                                   # no reactive power in the DC problem
        key = (c["et"], idx)
        if key in uidx:
            by_unit.setdefault(uidx[key], []).append(c)
        else:
            # fixed power: the element's own (scaled) setpoint if it is in service at a live bus, else 0
            t = net[c["et"]]
            p = 0.0
            if c["et"] != "dcline":
                b = t.at[idx, "bus"]
                if t.at[idx, "in_service"] and model["live"](b):
                    p = float(t.at[idx, "p_mw"]) * (float(t.at[idx, "scaling"]) if "scaling" in t.columns else 1.0)
            const += gen.poly_value(c, p, None) if c["kind"] == "poly" else gen.pwl_value(c["points"], p)
    return by_unit, const


def solve(model, by_unit, const, sn):
    from scipy.optimize import linprog
    nodes = model["nodes"]
    pos = {n: k for k, n in enumerate(nodes)}
    nn, nu = len(nodes), len(model["units"])
    # epigraph variables: one per (unit, pwl entry)
    epi = []
    for k, cs in by_unit.items():
        for c in cs:
            if c["kind"] == "pwl":
                epi.append((k, c))
    nv = nn + nu + len(epi)
    # equality: for each node  sum_b B (theta_n - theta_m - shift)  - sum units coef*p = fixed
    A = np.zeros((nn, nv))
    rhs = np.zeros(nn)
    for n, v in model["fixed"].items():
        if n in pos:
            rhs[pos[n]] += v
    G, h = [], []
    binding_info = []
    for name, a, b, bb, sh, lim in model["branches"]:
        ia, ib = pos[a], pos[b]
        # flow a->b = bb*(th_a - th_b - sh) leaves node a, enters node b
        A[ia, ia] += bb
        A[ia, ib] -= bb
        A[ib, ib] += bb
        A[ib, ia] -= bb
        rhs[ia] += bb * sh
        rhs[ib] -= bb * sh
        if lim is not None and ia != ib:      # a branch between two buses of one fused node carries no DC flow
            lim_r = lim * (1 + 1e-7) + 1e-6 * max(1.0, sn / 100.0)
            row = np.zeros(nv)
            row[ia], row[ib] = bb, -bb
            G.append(row.copy())
            h.append(lim_r + bb * sh)
            G.append(-row)
            h.append(lim_r - bb * sh)
            binding_info.append((name, row.copy(), bb * sh, lim))
    for k, u in enumerate(model["units"]):
        for n, coef in u["terms"]:
            A[pos[n], nn + k] -= coef
    lb = [None] * nv
    ub = [None] * nv
    scale = 1.0
    for k, u in enumerate(model["units"]):
        lo, hi = u["lo"], u["hi"]
        lb[nn + k] = None if lo is None else lo - 1e-9 * max(1.0, abs(lo))
        ub[nn + k] = None if hi is None else hi + 1e-9 * max(1.0, abs(hi))
        for v in (lo, hi):
            if v is not None:
                scale = max(scale, abs(v))
    # angle references: one per connected component
    refs = set(model["comp"].values())
    for r in refs:
        lb[pos[r]] = ub[pos[r]] = 0.0
    c_lin = np.zeros(nv)
    quad = np.zeros(nv)
    c0 = const
    from pbt import c16_gen as gen
    for k, cs in by_unit.items():
        for c in cs:
            if c["kind"] == "poly":
                c_lin[nn + k] += c.get("cp1_eur_per_mw", 0.0)
                quad[nn + k] += c.get("cp2_eur_per_mw2", 0.0)
                c0 += c.get("cp0_eur", 0.0)
    for j, (k, c) in enumerate(epi):
        col = nn + nu + j
        c_lin[col] = 1.0
        pts = c["points"]
        f = pts[0][2] * pts[0][0]
        for lo, hi, s in pts:
            # t >= f + s*(p - lo)   ->   s*p - t <= s*lo - f
            row = np.zeros(nv)
            row[nn + k] = s
            row[col] = -1.0
            G.append(row)
            h.append(s * lo - f)
            f += s * (hi - lo)
    bounds = list(zip(lb, ub))
    G = np.array(G) if G else None
    h = np.array(h) if G is not None else None
    lp = linprog(c_lin, A_ub=G, b_ub=h, A_eq=A, b_eq=rhs, bounds=bounds, method="highs")
    if lp.status == 2:
        return dict(status="infeasible", why=lp.message[:80])
    if lp.status == 3:
        return dict(status="unbounded")
    if lp.status != 0:
        return dict(status="solver-failed", why=lp.message[:80])
    x = lp.x
    if quad.any():
        x = _solve_qp(c_lin, quad, G, h, A, rhs, bounds, x, scale, unbounded_lp=False)
        if x is None:
            return dict(status="solver-failed", why="qp")
    cost = float(c_lin @ x + quad @ (x * x) + c0)
    binding = []
    for name, row, off, lim in binding_info:
        fl = float(row @ x - off)
        if abs(abs(fl) - lim) <= 1e-5 * max(1.0, lim):
            binding.append(list(name))
    dispatch = [[u["et"], u["idx"], float(x[nn + k])] for k, u in enumerate(model["units"])]
    return dict(status="optimal", cost=cost, dispatch=dispatch, binding_branch=binding)


def _solve_qp(c_lin, quad, G, h, A, rhs, bounds, x0, scale, unbounded_lp):
    """convex QP from several starts with two methods; returns the best feasible point"""
    from scipy.optimize import minimize, LinearConstraint, Bounds
    nv = len(c_lin)
    fun = lambda x: float(c_lin @ x + quad @ (x * x))      # noqa: E731
    jac = lambda x: c_lin + 2 * quad * x                      # noqa: E731
    hess = lambda x: np.diag(2 * quad)                        # noqa: E731
    lo = np.array([-np.inf if b[0] is None else b[0] for b in bounds])
    hi = np.array([np.inf if b[1] is None else b[1] for b in bounds])
    cons = [LinearConstraint(A, rhs, rhs)]
    if G is not None:
        cons.append(LinearConstraint(G, -np.inf, h))
    best = None

    def feasible(x):
        if np.abs(A @ x - rhs).max() > 1e-6 * scale:
            return False
        if G is not None and (G @ x - h).max() > 1e-6 * scale:
            return False
        return bool(((x >= lo - 1e-6 * scale) & (x <= hi + 1e-6 * scale)).all())

    try:
        r = minimize(fun, x0, jac=jac, hess=hess, method="trust-constr", constraints=cons, bounds=Bounds(lo, hi),
                     options=dict(gtol=1e-10, xtol=1e-12, maxiter=2000))
        if feasible(r.x):
            best = r.x
    except Exception:
        pass
    sl_cons = [dict(type="eq", fun=lambda x: A @ x - rhs, jac=lambda x: A)]
    if G is not None:
        sl_cons.append(dict(type="ineq", fun=lambda x: h - G @ x, jac=lambda x: -G))
    starts = [x0] + ([best] if best is not None else [])
    for s in starts:
        try:
            r = minimize(fun, s, jac=jac, method="SLSQP", constraints=sl_cons, bounds=list(zip(lo, hi)),
                         options=dict(ftol=1e-14, maxiter=500))
            if feasible(r.x) and (best is None or fun(r.x) < fun(best)):
                best = r.x
        except Exception:
            pass
    return best


def reference_optimum(net, maps, costs, impedance_rating=False):
    sn = float(net.sn_mva)
    try:
        model = build_model(net, impedance_rating)
    except Unsupported as e:
        return dict(status="unsupported:" + str(e))
    if self_check(net, model, sn) > 1.0:
        return dict(status="unsupported:susceptance-model-differs")
    by_unit, const = _cost_terms(costs, maps, model, net)
    return solve(model, by_unit, const, sn)
