"""Independent element models written from doc/elements/*.rst and circuit theory (DESIGN.md sec. 1.7).
Everything is computed in kV / Ohm / kA / MVA from the element tables and the *reported* complex bus voltages;
no pandapower calculation code is called."""
import cmath
import math

SQ3 = math.sqrt(3.0)


def bus_voltage(net, bus):
    """complex line-line voltage in kV from res_bus"""
    vm = net.res_bus.at[bus, "vm_pu"]
    va = net.res_bus.at[bus, "va_degree"]
    if math.isnan(vm) or math.isnan(va):
        return None
    return cmath.rect(vm * net.bus.at[bus, "vn_kv"], math.radians(va))


def _nan0(x, default=0.0):
    try:
        x = float(x)
    except (TypeError, ValueError):
        return default
    return default if math.isnan(x) else x


def line_model(net, idx, Vf, Vt):
    r = net.line.loc[idx]
    par = int(r.parallel)
    Z = complex(r.r_ohm_per_km, r.x_ohm_per_km) * r.length_km / par
    Y = complex(_nan0(r.g_us_per_km) * 1e-6, 2 * math.pi * net.f_hz * r.c_nf_per_km * 1e-9) * r.length_km * par
    If = (Vf - Vt) / Z + Vf * Y / 2
    It = (Vt - Vf) / Z + Vt * Y / 2
    Sf, St = Vf * If.conjugate(), Vt * It.conjugate()
    i_f, i_t = abs(If) / SQ3, abs(It) / SQ3
    loading = max(i_f, i_t) / (r.max_i_ka * r.df * par) * 100.0
    return {"p_from_mw": Sf.real, "q_from_mvar": Sf.imag, "p_to_mw": St.real, "q_to_mvar": St.imag,
            "i_from_ka": i_f, "i_to_ka": i_t, "i_ka": max(i_f, i_t), "loading_percent": loading,
            "pl_mw": Sf.real + St.real, "ql_mvar": Sf.imag + St.imag}


def tap_adjust(vn_hv, vn_lv, shift, tap_changer_type, tap_side, tap_pos, tap_neutral, step_percent, step_degree):
    """documented tap changer models -> (vn_hv', vn_lv', shift')"""
    if tap_changer_type is None or (isinstance(tap_changer_type, float) and math.isnan(tap_changer_type)) \
            or tap_changer_type not in ("Ratio", "Symmetrical", "Ideal"):
        return vn_hv, vn_lv, shift
    d = _nan0(tap_pos) - _nan0(tap_neutral)
    sp, sd = _nan0(step_percent), _nan0(step_degree)
    direction = 1.0 if tap_side == "hv" else -1.0
    if tap_changer_type == "Ideal":
        if sd != 0:
            ang = d * sd
        else:
            ang = 2 * math.degrees(math.asin(d * sp / 100.0 / 2))
        return vn_hv, vn_lv, shift + direction * ang
    n = 1 + d * sp / 100.0 * cmath.exp(1j * math.radians(sd))
    if tap_side == "hv":
        return vn_hv * abs(n), vn_lv, shift + math.degrees(cmath.phase(n))
    return vn_hv, vn_lv * abs(n), shift - math.degrees(cmath.phase(n))


def trafo2w_core(Vh, Vl, sn, vn_hv, vn_lv, shift_deg, vk, vkr, pfe_kw, i0, model="t", parallel=1, rr=0.5, xr=0.5, x_sign=1.0):
    """two-winding transformer between complex terminal voltages (kV); vn_hv/vn_lv/shift already tap adjusted.
    returns (S_hv, S_lv) in MVA, power flowing INTO the transformer at each terminal"""
    zk = vk / 100.0 * vn_lv ** 2 / sn
    rk = vkr / 100.0 * vn_lv ** 2 / sn
    xk = x_sign * math.sqrt(max(zk ** 2 - rk ** 2, 0.0))
    z = complex(rk, xk) / parallel
    ym_abs = i0 / 100.0 * sn / vn_lv ** 2
    gm = pfe_kw / 1000.0 / vn_lv ** 2
    bm2 = ym_abs ** 2 - gm ** 2
    bm = math.sqrt(bm2) if bm2 > 0 else 0.0
    ym = complex(gm, -bm) * parallel
    N = (vn_hv / vn_lv) * cmath.exp(1j * math.radians(shift_deg))
    V1 = Vh / N          # hv voltage referred to the lv side
    V2 = Vl
    if model == "pi" or ym == 0:
        I1 = (V1 - V2) / z + V1 * ym / 2
        I2 = (V2 - V1) / z + V2 * ym / 2
    else:
        za = complex(rk * rr, xk * xr) / parallel
        zb = complex(rk * (1 - rr), xk * (1 - xr)) / parallel
        Vs = (V1 / za + V2 / zb) / (1 / za + 1 / zb + ym)
        I1 = (V1 - Vs) / za
        I2 = (V2 - Vs) / zb
    return V1 * I1.conjugate(), V2 * I2.conjugate()


def trafo_model(net, idx, Vh, Vl, trafo_model="t", angles=True, trafo_loading="current"):
    r = net.trafo.loc[idx]
    shift = float(r.shift_degree) if angles else 0.0
    vh, vl, sh = tap_adjust(r.vn_hv_kv, r.vn_lv_kv, shift, r.get("tap_changer_type"), r.get("tap_side"), r.get("tap_pos"),
                            r.get("tap_neutral"), r.get("tap_step_percent"), r.get("tap_step_degree"))
    rr = _nan0(r.get("leakage_resistance_ratio_hv"), 0.5) if "leakage_resistance_ratio_hv" in net.trafo else 0.5
    xr = _nan0(r.get("leakage_reactance_ratio_hv"), 0.5) if "leakage_reactance_ratio_hv" in net.trafo else 0.5
    par = int(r.parallel)
    Sh, Sl = trafo2w_core(Vh, Vl, r.sn_mva, vh, vl, sh, r.vk_percent, r.vkr_percent, r.pfe_kw, r.i0_percent,
                          model=trafo_model, parallel=par, rr=rr, xr=xr)
    ih, il = abs(Sh) / (SQ3 * abs(Vh)), abs(Sl) / (SQ3 * abs(Vl))
    if trafo_loading == "current":
        ld = max(ih * r.vn_hv_kv, il * r.vn_lv_kv) * SQ3 / r.sn_mva * 100.0
    else:
        ld = max(abs(Sh), abs(Sl)) / r.sn_mva * 100.0
    ld = ld / par / r.df
    return {"p_hv_mw": Sh.real, "q_hv_mvar": Sh.imag, "p_lv_mw": Sl.real, "q_lv_mvar": Sl.imag, "i_hv_ka": ih, "i_lv_ka": il,
            "loading_percent": ld, "pl_mw": Sh.real + Sl.real, "ql_mvar": Sh.imag + Sl.imag}


def trafo3w_star_parameters(r):
    """documented delta -> star conversion of the short-circuit voltages (percent, on each winding's own rating)"""
    sn = [r.sn_hv_mva, r.sn_mv_mva, r.sn_lv_mva]
    vk = [r.vk_hv_percent, r.vk_mv_percent, r.vk_lv_percent]
    vkr = [r.vkr_hv_percent, r.vkr_mv_percent, r.vkr_lv_percent]
    mins = [min(sn[0], sn[1]), min(sn[1], sn[2]), min(sn[0], sn[2])]
    vk_d = [vk[i] * sn[0] / mins[i] for i in range(3)]        # hm, ml, lh relative to sn_hv
    vkr_d = [vkr[i] * sn[0] / mins[i] for i in range(3)]
    vki_d = [math.sqrt(max(vk_d[i] ** 2 - vkr_d[i] ** 2, 0.0)) for i in range(3)]

    def star(z):
        return [0.5 * (z[0] + z[2] - z[1]), 0.5 * (z[1] + z[0] - z[2]), 0.5 * (z[1] + z[2] - z[0])]
    vkr_s = [v * sn[i] / sn[0] for i, v in enumerate(star(vkr_d))]
    vki_s = [v * sn[i] / sn[0] for i, v in enumerate(star(vki_d))]
    return sn, vkr_s, vki_s


def trafo3w_model(net, idx, Vh, Vm, Vl, Vstar, trafo_model="t", angles=True, losses="hv", trafo_loading="current"):
    """per-winding check of the documented three-transformer star equivalent at the reported internal star voltage.
    returns dict of results, plus 'star_mismatch' = complex power imbalance at the star point (MVA)"""
    r = net.trafo3w.loc[idx]
    sn, vkr_s, vki_s = trafo3w_star_parameters(r)
    sides = ("hv", "mv", "lv")
    V = {"hv": Vh, "mv": Vm, "lv": Vl}
    vn = {"hv": r.vn_hv_kv, "mv": r.vn_mv_kv, "lv": r.vn_lv_kv}
    shift = {"hv": 0.0, "mv": float(r.shift_mv_degree) if angles else 0.0, "lv": float(r.shift_lv_degree) if angles else 0.0}
    out = {}
    star_sum = 0j
    for k, s in enumerate(sides):
        vk = math.copysign(math.hypot(vkr_s[k], vki_s[k]), vki_s[k] if vki_s[k] != 0 else 1.0)
        pfe = r.pfe_kw if losses == s else 0.0
        i0 = r.i0_percent if losses == s else 0.0
        tct = r.get("tap_changer_type") if r.get("tap_side") == s else None
        if s == "hv":
            # T1: hv bus -> star, ratio vn_hv'/vn_hv
            vh_, vl_, sh_ = tap_adjust(vn["hv"], vn["hv"], 0.0, tct, "hv", r.get("tap_pos"), r.get("tap_neutral"),
                                       r.get("tap_step_percent"), r.get("tap_step_degree"))
            if V[s] is None:
                continue
            S1, S2 = trafo2w_core(V[s], Vstar, sn[k], vh_, vl_, sh_, abs(vk), vkr_s[k], pfe, i0, model=trafo_model,
                                  x_sign=1.0 if vki_s[k] >= 0 else -1.0)
            S_term, S_star = S1, S2
        else:
            vh_, vl_, sh_ = tap_adjust(vn["hv"], vn[s], shift[s], tct, "lv", r.get("tap_pos"), r.get("tap_neutral"),
                                       r.get("tap_step_percent"), r.get("tap_step_degree"))
            if V[s] is None:
                continue
            S1, S2 = trafo2w_core(Vstar, V[s], sn[k], vh_, vl_, sh_, abs(vk), vkr_s[k], pfe, i0, model=trafo_model,
                                  x_sign=1.0 if vki_s[k] >= 0 else -1.0)
            S_term, S_star = S2, S1
        star_sum += S_star
        out["p_%s_mw" % s] = S_term.real
        out["q_%s_mvar" % s] = S_term.imag
        out["i_%s_ka" % s] = abs(S_term) / (SQ3 * abs(V[s]))
    out["star_mismatch"] = star_sum
    if all(("i_%s_ka" % s) in out for s in sides):
        if trafo_loading == "current":
            out["loading_percent"] = max(out["i_%s_ka" % s] * vn[s] * SQ3 / sn[k] for k, s in enumerate(sides)) * 100.0
        else:
            out["loading_percent"] = max(abs(complex(out["p_%s_mw" % s], out["q_%s_mvar" % s])) / sn[k] for k, s in enumerate(sides)) * 100.0
    return out


def impedance_model(net, idx, Vf, Vt):
    r = net.impedance.loc[idx]
    vn = net.bus.at[r.from_bus, "vn_kv"]
    zb = vn ** 2 / r.sn_mva
    zft = complex(r.rft_pu, r.xft_pu) * zb
    ztf = complex(r.rtf_pu, r.xtf_pu) * zb
    yf = complex(_nan0(r.get("gf_pu")), _nan0(r.get("bf_pu"))) / zb
    yt = complex(_nan0(r.get("gt_pu")), _nan0(r.get("bt_pu"))) / zb
    If = (Vf - Vt) / zft + Vf * yf
    It = (Vt - Vf) / ztf + Vt * yt
    Sf, St = Vf * If.conjugate(), Vt * It.conjugate()
    return {"p_from_mw": Sf.real, "q_from_mvar": Sf.imag, "p_to_mw": St.real, "q_to_mvar": St.imag,
            "i_from_ka": abs(If) / SQ3, "i_to_ka": abs(It) / SQ3, "pl_mw": Sf.real + St.real, "ql_mvar": Sf.imag + St.imag}


def switch_model(net, idx, Vf, Vt, switch_rx_ratio=2.0):
    z = net.switch.at[idx, "z_ohm"]
    rz = switch_rx_ratio / math.sqrt(1 + switch_rx_ratio ** 2)
    xz = 1 / math.sqrt(1 + switch_rx_ratio ** 2)
    Z = complex(z * rz, z * xz)
    If = (Vf - Vt) / Z
    Sf, St = Vf * If.conjugate(), Vt * (-If).conjugate()
    return {"p_from_mw": Sf.real, "q_from_mvar": Sf.imag, "p_to_mw": St.real, "q_to_mvar": St.imag, "i_ka": abs(If) / SQ3}


def ward_model(net, idx, V):
    r = net.ward.loc[idx]
    v = abs(V) / net.bus.at[r.bus, "vn_kv"]
    return {"p_mw": r.ps_mw + r.pz_mw * v * v, "q_mvar": r.qs_mvar + r.qz_mvar * v * v}


def xward_model(net, idx, V, Vint):
    """Vint: reported internal voltage (kV, complex)"""
    r = net.xward.loc[idx]
    v = abs(V) / net.bus.at[r.bus, "vn_kv"]
    Z = complex(r.r_ohm, r.x_ohm)
    Sbr = V * ((V - Vint) / Z).conjugate()
    return {"p_mw": r.ps_mw + r.pz_mw * v * v + Sbr.real, "q_mvar": r.qs_mvar + r.qz_mvar * v * v + Sbr.imag,
            "vm_internal_expected": r.vm_pu}
