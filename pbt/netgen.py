"""Hypothesis strategies that draw JSON-serialisable network *recipes* and a deterministic builder
recipe -> pandapowerNet through the public create_* API (DESIGN.md sec. 1.3).

Recipe: {"sn_mva":…, "f_hz":50, "buses":[{"vn_kv":…, "in_service":…, "index":…}, …],
         "el":[{"t":"line","from_bus":<bus pos>,"to_bus":<bus pos>, …create kwargs…}, …]}
Bus references are positions in "buses"; switch "element" is the ordinal of the k-th element of the
referenced type in "el" (or a bus position for et="b").
"""
import copy
import math

from hypothesis import strategies as st

BUS_KEYS = ("bus", "from_bus", "to_bus", "hv_bus", "mv_bus", "lv_bus")
ET_TABLE = {"l": "line", "t": "trafo", "t3": "trafo3w"}

# per voltage level: MVA scale, line parameter ranges (r, x, c, imax, length)
LEVELS = {
    380.0: dict(s=300.0, r=(0.02, 0.05), x=(0.25, 0.35), c=(10, 14), i=(1.5, 3.0), l=(5, 80)),
    220.0: dict(s=120.0, r=(0.04, 0.09), x=(0.28, 0.42), c=(8, 12), i=(0.8, 1.6), l=(5, 60)),
    110.0: dict(s=30.0, r=(0.05, 0.20), x=(0.25, 0.45), c=(8, 15), i=(0.4, 1.0), l=(1, 30)),
    20.0: dict(s=3.0, r=(0.10, 0.60), x=(0.10, 0.40), c=(10, 300), i=(0.15, 0.6), l=(0.2, 8)),
    10.0: dict(s=1.5, r=(0.10, 0.60), x=(0.08, 0.35), c=(10, 350), i=(0.15, 0.5), l=(0.1, 5)),
    0.4: dict(s=0.06, r=(0.20, 0.65), x=(0.07, 0.10), c=(150, 300), i=(0.10, 0.4), l=(0.02, 0.3)),
}
LEVEL_SETS = [[110.0], [20.0], [10.0], [0.4], [110.0, 20.0], [20.0, 0.4], [10.0, 0.4], [110.0, 10.0],
              [220.0, 110.0], [380.0, 110.0], [110.0, 20.0, 0.4], [380.0, 110.0, 20.0], [220.0, 110.0, 10.0]]

DEFAULT_PROFILE = dict(
    level_sets=LEVEL_SETS, nb_level=(1, 5), nb_max=12,
    bus_kinds={"load": 5, "sgen": 3, "gen": 2, "storage": 1, "shunt": 1, "ward": 1, "xward": 1, "motor": 1,
               "asymmetric_load": 0, "asymmetric_sgen": 0},
    max_per_bus=3,
    branch_kinds={"line": 8, "impedance": 1, "bb": 2},   # intra-level connections
    extra_branches=(0, 3),
    trafo3w=True, trafo_parallel_pair=True,
    zip=True, oos=0.12, switches=True, open_prob=0.35, switch_z=True,
    dcline=False, second_slack=True, slack_gen=True, noslack_island=True,
    shifts=(0.0, 0.0, 30.0, 150.0, -30.0, 180.0), tap_types=(None, "Ratio", "Symmetrical", "Ideal"),
    custom_index=True, sn_choices=(1.0, 1.0, 10.0, 100.0, 0.5, 1000.0),
    scaling=True, gen_qlims=True, line_g=True, line_parallel=True, df=True, leakage=True,
    tap2=False, trafo_oltc_cols=False, gen_qlim_range=(0.02, 0.4), resistive_shunts=False, slack_any_level=False, bus_order=False,
)


def profile(**kw):
    p = copy.deepcopy(DEFAULT_PROFILE)
    for k, v in kw.items():
        if k not in p:
            raise KeyError(k)
        p[k] = v
    return p


def q(lo, hi, nd=3):
    """quantised float in [lo, hi] (shrinks towards lo, readable, exact JSON round trip)"""
    f = 10 ** nd
    a, b = int(math.ceil(lo * f - 1e-9)), int(math.floor(hi * f + 1e-9))
    if b < a:
        b = a
    return st.integers(a, b).map(lambda i: i / f)


def weighted(d):
    items = [k for k, w in d.items() for _ in range(int(w))]
    return st.sampled_from(items)


@st.composite
def line_params(draw, vn, p):
    L = LEVELS[vn]
    d = {"t": "line",
         "length_km": draw(q(*L["l"])),
         "r_ohm_per_km": draw(q(*L["r"], nd=4)),
         "x_ohm_per_km": draw(q(*L["x"], nd=4)),
         "c_nf_per_km": draw(q(*L["c"], nd=1)) if draw(st.integers(0, 5)) else 0.0,
         "max_i_ka": draw(q(*L["i"]))}
    if p["line_g"] and draw(st.integers(0, 4)) == 0:
        d["g_us_per_km"] = draw(q(0.0, 5.0, nd=2))
    if p["line_parallel"] and draw(st.integers(0, 4)) == 0:
        d["parallel"] = draw(st.integers(2, 3))
    if p["df"] and draw(st.integers(0, 5)) == 0:
        d["df"] = draw(q(0.5, 1.0, nd=2))
    return d


@st.composite
def tap_params(draw, p, sides=("hv", "lv")):
    tt = draw(st.sampled_from(p["tap_types"]))
    if tt is None:
        return {}
    tmin = -draw(st.integers(0, 4))
    tmax = draw(st.integers(0, 4))
    neutral = draw(st.integers(tmin, tmax)) if draw(st.integers(0, 3)) == 0 else 0
    if neutral < tmin or neutral > tmax:
        neutral = 0
        tmin, tmax = min(tmin, 0), max(tmax, 0)
    d = {"tap_changer_type": tt, "tap_side": draw(st.sampled_from(sides)), "tap_neutral": neutral,
         "tap_min": tmin, "tap_max": tmax, "tap_pos": draw(st.integers(tmin, tmax))}
    if tt == "Ratio":
        d["tap_step_percent"] = draw(q(0.5, 2.5, nd=2))
        if draw(st.integers(0, 2)) == 0:
            d["tap_step_degree"] = draw(st.sampled_from([0.0, 30.0, 60.0, 90.0, 120.0]))
    elif tt == "Symmetrical":
        d["tap_step_percent"] = draw(q(0.5, 2.5, nd=2))
    elif tt == "Ideal":
        # an ideal phase shifter is parameterised by an angle per step or by a voltage step (angle = 2*asin(n*du/2))
        if draw(st.booleans()):
            d["tap_step_degree"] = draw(q(0.2, 2.0, nd=2))
        else:
            d["tap_step_percent"] = draw(q(0.5, 2.5, nd=2))
    return d


@st.composite
def trafo_params(draw, vh, vl, s_low, shift, p):
    sn = round(s_low * draw(q(3.0, 12.0, nd=1)), 4)
    vk = draw(q(4.0, 18.0, nd=2))
    vkr = min(draw(q(0.1, 1.6, nd=2)), vk)
    d = {"t": "trafo", "sn_mva": sn,
         "vn_hv_kv": vh * draw(st.sampled_from([1.0, 1.0, 1.05, 0.975])),
         "vn_lv_kv": vl * draw(st.sampled_from([1.0, 1.0, 1.05, 1.025])),
         "vk_percent": vk, "vkr_percent": vkr,
         "pfe_kw": round(sn * draw(q(0.0, 1.5, nd=2)), 4) if draw(st.integers(0, 3)) else 0.0,
         "i0_percent": draw(q(0.0, 0.5, nd=3)) if draw(st.integers(0, 3)) else 0.0,
         "shift_degree": shift}
    # i0 must cover pfe (otherwise the magnetising susceptance would be imaginary)
    if d["i0_percent"] * 10 * sn < d["pfe_kw"]:
        d["i0_percent"] = round(d["pfe_kw"] / (10 * sn) + 0.01, 4)
    d.update(draw(tap_params(p)))
    if p["line_parallel"] and draw(st.integers(0, 5)) == 0:
        d["parallel"] = 2
    if p["df"] and draw(st.integers(0, 6)) == 0:
        d["df"] = draw(q(0.5, 1.0, nd=2))
    if p["leakage"] and draw(st.integers(0, 6)) == 0:
        d["leakage_resistance_ratio_hv"] = draw(q(0.1, 0.9, nd=1))
        d["leakage_reactance_ratio_hv"] = draw(q(0.1, 0.9, nd=1))
    return d


@st.composite
def trafo3w_params(draw, vh, vm, vl, s_m, s_l, shift_mv, shift_lv, p):
    sm = round(s_m * draw(q(3.0, 8.0, nd=1)), 4)
    sl = round(s_l * draw(q(3.0, 8.0, nd=1)), 4)
    sh = round(max(sm, sl) * draw(q(1.0, 1.6, nd=1)), 4)
    d = {"t": "trafo3w", "vn_hv_kv": vh, "vn_mv_kv": vm * draw(st.sampled_from([1.0, 1.0, 1.05])),
         "vn_lv_kv": vl * draw(st.sampled_from([1.0, 1.0, 1.05])),
         "sn_hv_mva": sh, "sn_mv_mva": sm, "sn_lv_mva": sl,
         "vk_hv_percent": draw(q(8.0, 14.0, nd=1)), "vk_mv_percent": draw(q(8.0, 14.0, nd=1)),
         "vk_lv_percent": draw(q(8.0, 14.0, nd=1)),
         "vkr_hv_percent": draw(q(0.2, 0.6, nd=2)), "vkr_mv_percent": draw(q(0.2, 0.6, nd=2)),
         "vkr_lv_percent": draw(q(0.2, 0.6, nd=2)),
         "pfe_kw": round(sh * draw(q(0.0, 1.0, nd=2)), 4) if draw(st.integers(0, 2)) else 0.0,
         "i0_percent": draw(q(0.0, 0.3, nd=3)) if draw(st.integers(0, 2)) else 0.0,
         "shift_mv_degree": shift_mv, "shift_lv_degree": shift_lv}
    if d["i0_percent"] * 10 * sh < d["pfe_kw"]:
        d["i0_percent"] = round(d["pfe_kw"] / (10 * sh) + 0.01, 4)
    t = draw(tap_params(p, sides=("hv", "mv", "lv")))
    d.update(t)
    if t and t["tap_changer_type"] in ("Ratio", "Symmetrical") and draw(st.integers(0, 2)) == 0:
        d["tap_at_star_point"] = True   # only with a voltage step: the star-point conversion needs tap_step_percent
    return d


@st.composite
def zip_shares(draw):
    kind = draw(st.integers(0, 3))
    if kind == 0:
        return {}
    out = {}
    for pq in ("p", "q"):
        z = draw(st.integers(0, 10)) * 10
        i = draw(st.integers(0, (100 - z) // 10)) * 10
        if z:
            out["const_z_%s_percent" % pq] = float(z)
        if i:
            out["const_i_%s_percent" % pq] = float(i)
    return out


@st.composite
def bus_element(draw, kind, vn, p, shift_deg=0.0):
    S = LEVELS[vn]["s"]
    pw = lambda lo=0.0, hi=0.5: round(S * draw(q(lo, hi, nd=3)), 6)   # noqa: E731
    d = {"t": kind}
    if kind == "load":
        d.update(p_mw=pw(), q_mvar=pw(-0.1, 0.25))
        if p["zip"]:
            d.update(draw(zip_shares()))
    elif kind == "sgen":
        d.update(p_mw=pw(0, 0.4), q_mvar=pw(-0.1, 0.1))
    elif kind == "storage":
        d.update(p_mw=pw(-0.3, 0.3), q_mvar=pw(-0.1, 0.1), max_e_mwh=1.0)
    elif kind == "gen":
        d.update(p_mw=pw(0, 0.5), vm_pu=draw(q(0.97, 1.04, nd=3)))
        if p["gen_qlims"] and draw(st.integers(0, 1)):
            lo, hi = p.get("gen_qlim_range", (0.02, 0.4))
            d.update(min_q_mvar=-pw(lo, hi), max_q_mvar=pw(lo, hi))
    elif kind == "shunt":
        d.update(q_mvar=pw(-0.3, 0.3), p_mw=pw(0, 0.05) if draw(st.integers(0, 1)) else 0.0)
        if p.get("resistive_shunts") or draw(st.integers(0, 7)) == 0:
            d.update(q_mvar=0.0, p_mw=pw(0.01, 0.2))      # purely resistive shunt
        if draw(st.integers(0, 2)) == 0:
            d["step"] = draw(st.integers(0, 3))
            d["max_step"] = 3
        if draw(st.integers(0, 2)) == 0:
            d["vn_kv"] = round(vn * draw(st.sampled_from([0.95, 1.05, 1.1])), 6)
    elif kind == "ward":
        d.update(ps_mw=pw(0, 0.3), qs_mvar=pw(-0.1, 0.1), pz_mw=pw(0, 0.2), qz_mvar=pw(-0.1, 0.1))
        if p.get("resistive_shunts"):
            d.update(qz_mvar=0.0, pz_mw=pw(0.01, 0.2))
    elif kind == "xward":
        zb = vn ** 2 / S
        d.update(ps_mw=pw(0, 0.3), qs_mvar=pw(-0.1, 0.1), pz_mw=pw(0, 0.2), qz_mvar=pw(-0.1, 0.1),
                 r_ohm=round(zb * draw(q(0.0, 0.05, nd=3)), 6), x_ohm=round(zb * draw(q(0.01, 0.3, nd=3)), 6),
                 vm_pu=draw(q(0.97, 1.03, nd=3)))
    elif kind == "motor":
        d.update(pn_mech_mw=pw(0.01, 0.3), cos_phi=draw(q(0.7, 1.0, nd=2)),
                 efficiency_percent=float(draw(st.integers(70, 100))), loading_percent=float(draw(st.integers(20, 110))))
    elif kind == "asymmetric_load":
        d.update(p_a_mw=pw(0, 0.15), p_b_mw=pw(0, 0.15), p_c_mw=pw(0, 0.15),
                 q_a_mvar=pw(-0.03, 0.08), q_b_mvar=pw(-0.03, 0.08), q_c_mvar=pw(-0.03, 0.08))
    elif kind == "asymmetric_sgen":
        d.update(p_a_mw=pw(0, 0.1), p_b_mw=pw(0, 0.1), p_c_mw=pw(0, 0.1),
                 q_a_mvar=pw(-0.03, 0.03), q_b_mvar=pw(-0.03, 0.03), q_c_mvar=pw(-0.03, 0.03))
    else:
        raise KeyError(kind)
    if p["scaling"] and kind in ("load", "sgen", "storage", "gen", "motor", "asymmetric_load", "asymmetric_sgen") \
            and draw(st.integers(0, 4)) == 0:
        d["scaling"] = draw(st.sampled_from([0.0, 0.5, 1.3, 2.0]))
    if p["oos"] and draw(st.floats(0, 1)) < p["oos"]:
        d["in_service"] = False
    return d


@st.composite
def grid(draw, p=None):
    p = p or DEFAULT_PROFILE
    levels = list(draw(st.sampled_from(p["level_sets"])))
    recipe = {"sn_mva": draw(st.sampled_from(p["sn_choices"])), "f_hz": 50.0, "buses": [], "el": []}
    el = recipe["el"]
    level_buses = []
    nb_total = 0
    for li, vn in enumerate(levels):
        lo, hi = p["nb_level"]
        if len(levels) == 1:
            lo = max(lo, 2)
        hi = max(lo, min(hi, p["nb_max"] - nb_total - (len(levels) - li - 1)))
        n = draw(st.integers(lo, hi))
        ids = list(range(nb_total, nb_total + n))
        nb_total += n
        level_buses.append(ids)
        for _ in ids:
            recipe["buses"].append({"vn_kv": vn})
    # accumulated phase shift per level (phase consistency by construction)
    shift_between = [draw(st.sampled_from(p["shifts"])) for _ in range(len(levels) - 1)]
    acc = [0.0]
    for s in shift_between:
        acc.append(acc[-1] - s)

    # intra-level spanning tree + extra branches
    def add_branch(vn, a, b):
        kind = draw(weighted(p["branch_kinds"]))
        if kind == "line":
            d = draw(line_params(vn, p))
            d.update(from_bus=a, to_bus=b)
        elif kind == "impedance":
            S = LEVELS[vn]["s"]
            r = draw(q(0.0, 0.03, nd=4))
            x = draw(q(0.005, 0.1, nd=4))
            d = {"t": "impedance", "from_bus": a, "to_bus": b, "rft_pu": r, "xft_pu": x, "sn_mva": round(S * 2, 4)}
            if draw(st.integers(0, 1)):
                d["rtf_pu"] = draw(q(0.0, 0.03, nd=4))
                d["xtf_pu"] = draw(q(0.005, 0.1, nd=4))
            if draw(st.integers(0, 2)) == 0:
                d["gf_pu"] = draw(q(0.0, 0.02, nd=4))
                d["bf_pu"] = draw(q(-0.05, 0.05, nd=4))
                if draw(st.integers(0, 1)):
                    d["gt_pu"] = draw(q(0.0, 0.02, nd=4))
                    d["bt_pu"] = draw(q(-0.05, 0.05, nd=4))
        else:  # bus-bus switch
            d = {"t": "switch", "et": "b", "bus": a, "element": b, "closed": True}
            if p["switch_z"] and draw(st.integers(0, 2)) == 0:
                d["z_ohm"] = round(vn ** 2 / LEVELS[vn]["s"] * draw(q(0.001, 0.05, nd=3)), 6)
            if p["switches"] and draw(st.floats(0, 1)) < 0.1:
                d["closed"] = False
        if d["t"] != "switch" and p["oos"] and draw(st.floats(0, 1)) < p["oos"] / 2:
            d["in_service"] = False
        el.append(d)

    for vn, ids in zip(levels, level_buses):
        for k in range(1, len(ids)):
            a = ids[draw(st.integers(0, k - 1))]
            add_branch(vn, a, ids[k])
        if len(ids) >= 2:
            for _ in range(draw(st.integers(*p["extra_branches"]))):
                a = draw(st.sampled_from(ids))
                b = draw(st.sampled_from(ids))
                if a != b:
                    add_branch(vn, a, b)

    # inter-level transformers
    used3w = False
    if len(levels) == 3 and p["trafo3w"] and draw(st.integers(0, 1)):
        used3w = True
        # sometimes two three-winding transformers (same shifts), so that result rows of several units exist
        for _ in range(2 if draw(st.integers(0, 2)) == 0 else 1):
            h, m, l = (draw(st.sampled_from(level_buses[i])) for i in range(3))
            d = draw(trafo3w_params(levels[0], levels[1], levels[2], LEVELS[levels[1]]["s"], LEVELS[levels[2]]["s"],
                                    -acc[1], -acc[2], p))
            d.update(hv_bus=h, mv_bus=m, lv_bus=l)
            el.append(d)
    for li in range(len(levels) - 1):
        n_tr = 0 if used3w and draw(st.integers(0, 2)) else 1
        if not used3w and p["trafo_parallel_pair"] and draw(st.integers(0, 4)) == 0:
            n_tr = 2
        for _ in range(n_tr):
            h = draw(st.sampled_from(level_buses[li]))
            l = draw(st.sampled_from(level_buses[li + 1]))
            d = draw(trafo_params(levels[li], levels[li + 1], LEVELS[levels[li + 1]]["s"] * len(level_buses[li + 1]),
                                  shift_between[li], p))
            d.update(hv_bus=h, lv_bus=l)
            if p["oos"] and draw(st.floats(0, 1)) < p["oos"] / 2:
                d["in_service"] = False
            el.append(d)

    # slack(s)
    top = level_buses[0]
    sl = 0
    if p.get("slack_any_level") and len(levels) > 1 and draw(st.integers(0, 2)) == 0:
        sl = draw(st.integers(1, len(levels) - 1))      # network fed from a lower voltage level (step-up transformers)
    sb = draw(st.sampled_from(level_buses[sl]))
    if p["slack_gen"] and sl == 0 and draw(st.integers(0, 4)) == 0:
        el.append({"t": "gen", "bus": sb, "p_mw": 0.0, "vm_pu": draw(q(0.98, 1.04, nd=3)), "slack": True})
    else:
        el.append({"t": "ext_grid", "bus": sb, "vm_pu": draw(q(0.98, 1.04, nd=3)), "va_degree": acc[sl]})
    if p["second_slack"] and draw(st.integers(0, 4 if p["second_slack"] is True else int(p["second_slack"]) - 1)) == 0:
        li = draw(st.integers(0, len(levels) - 1))
        b2 = draw(st.sampled_from(level_buses[li]))
        d = {"t": "ext_grid", "bus": b2, "vm_pu": draw(q(0.98, 1.04, nd=3)), "va_degree": acc[li]}
        if p["oos"] and draw(st.floats(0, 1)) < p["oos"]:
            d["in_service"] = False
        el.append(d)

    # bus elements
    for li, (vn, ids) in enumerate(zip(levels, level_buses)):
        for b in ids:
            for _ in range(draw(st.integers(0, p["max_per_bus"]))):
                kind = draw(weighted(p["bus_kinds"]))
                el.append(dict(draw(bus_element(kind, vn, p)), bus=b))

    # dcline between two buses of the top level
    if p["dcline"] and len(top) >= 2 and draw(st.integers(0, 1)):
        a = draw(st.sampled_from(top))
        b = draw(st.sampled_from([x for x in top if x != a]))
        S = LEVELS[levels[0]]["s"]
        el.append({"t": "dcline", "from_bus": a, "to_bus": b, "p_mw": round(S * draw(q(0.0, 0.3, nd=2)), 5),
                   "loss_percent": draw(q(0.0, 3.0, nd=1)), "loss_mw": round(S * draw(q(0.0, 0.01, nd=3)), 6),
                   "vm_from_pu": draw(q(0.98, 1.03, nd=3)), "vm_to_pu": draw(q(0.98, 1.03, nd=3))})

    # element switches
    if p["switches"]:
        for et, tab in ET_TABLE.items():
            idx = [i for i, e in enumerate(x for x in el if x["t"] == tab)]
            elems = [e for e in el if e["t"] == tab]
            for k, e in zip(idx, elems):
                if draw(st.integers(0, 3)) == 0:
                    keys = {"line": ("from_bus", "to_bus"), "trafo": ("hv_bus", "lv_bus"),
                            "trafo3w": ("hv_bus", "mv_bus", "lv_bus")}[tab]
                    for key in draw(st.lists(st.sampled_from(keys), min_size=1, max_size=2, unique=True)):
                        el.append({"t": "switch", "et": et, "bus": e[key], "element": k,
                                   "closed": not (draw(st.floats(0, 1)) < p["open_prob"])})

    # an island without slack
    if p["noslack_island"] and draw(st.integers(0, 7)) == 0:
        vn = levels[-1]
        n0 = len(recipe["buses"])
        recipe["buses"] += [{"vn_kv": vn}, {"vn_kv": vn}]
        d = draw(line_params(vn, p))
        d.update(from_bus=n0, to_bus=n0 + 1)
        el.append(d)
        el.append(dict(draw(bus_element("load", vn, p)), bus=n0 + 1))

    # bus in_service flags (never the first slack bus) and custom index labels
    if p["oos"]:
        for i, b in enumerate(recipe["buses"]):
            if i != sb and draw(st.floats(0, 1)) < p["oos"] / 3:
                b["in_service"] = False
    if p["custom_index"] and draw(st.integers(0, 2)) == 0:
        perm = draw(st.permutations(range(len(recipe["buses"]))))
        off = draw(st.sampled_from([0, 3, 100]))
        for b, lab in zip(recipe["buses"], perm):
            b["index"] = int(lab) + off
    if p.get("bus_order") and (draw(st.integers(0, 2)) == 0 or (sl > 0 and draw(st.booleans()))):
        # creation order of the buses (= row order of net.bus): slack bus first, reversed, or any permutation
        n = len(recipe["buses"])
        kind = draw(st.sampled_from(["slack-first", "reversed", "permuted"] + (["slack-first"] * 3 if sl > 0 else [])))
        if kind == "slack-first":
            order = [sb] + [i for i in range(n) if i != sb]
        elif kind == "reversed":
            order = list(range(n - 1, -1, -1))
        else:
            order = [int(i) for i in draw(st.permutations(range(n)))]
        recipe["bus_order"] = order
    return normalize(recipe)


def nodes_of(recipe):
    """union-find over closed zero-impedance bus-bus switches -> representative per bus position"""
    n = len(recipe["buses"])
    par = list(range(n))

    def find(a):
        while par[a] != a:
            par[a] = par[par[a]]
            a = par[a]
        return a
    for e in recipe["el"]:
        if e["t"] == "switch" and e["et"] == "b" and e.get("closed", True) and not e.get("z_ohm", 0):
            ins = all(recipe["buses"][b].get("in_service", True) for b in (e["bus"], e["element"]))
            if ins:
                ra, rb = find(e["bus"]), find(e["element"])
                if ra != rb:
                    par[max(ra, rb)] = min(ra, rb)
    return [find(i) for i in range(n)]


def normalize(recipe):
    """post-processing that keeps the recipe inside the documented input domain:
    * all voltage-controlling elements of one electrical node share one setpoint (pandapower rejects
      conflicting setpoints with a UserWarning)
    * the optional leakage-ratio columns are given for every transformer or for none (a NaN ratio is not
      a documented input)
    * no xward at a node that already has a voltage-controlling element (documented as unsupported)"""
    node = nodes_of(recipe)
    vm = {}
    for e in recipe["el"]:
        if e["t"] in ("ext_grid", "gen") and e.get("in_service", True):
            vm.setdefault(node[e["bus"]], e["vm_pu"])
        elif e["t"] == "dcline" and e.get("in_service", True):
            vm.setdefault(node[e["from_bus"]], e["vm_from_pu"])
            vm.setdefault(node[e["to_bus"]], e["vm_to_pu"])
    for e in recipe["el"]:
        if e["t"] in ("ext_grid", "gen"):
            e["vm_pu"] = vm.get(node[e["bus"]], e["vm_pu"])
        elif e["t"] == "dcline":
            e["vm_from_pu"] = vm.get(node[e["from_bus"]], e["vm_from_pu"])
            e["vm_to_pu"] = vm.get(node[e["to_bus"]], e["vm_to_pu"])
    recipe["el"] = [e for e in recipe["el"] if not (e["t"] == "xward" and node[e["bus"]] in vm)]
    tr = [e for e in recipe["el"] if e["t"] == "trafo"]
    if any("leakage_resistance_ratio_hv" in e for e in tr):
        for e in tr:
            e.setdefault("leakage_resistance_ratio_hv", 0.5)
            e.setdefault("leakage_reactance_ratio_hv", 0.5)
    return recipe


def build(recipe, pp=None):
    """deterministic recipe -> (net, maps) ; maps[type] = list of created indices in recipe order"""
    import pandapower as pp_
    pp = pp or pp_
    net = pp.create_empty_network(sn_mva=recipe.get("sn_mva", 1.0), f_hz=recipe.get("f_hz", 50.0))
    order = recipe.get("bus_order")
    if order:
        # buses are created in the given order; labels stay what they would be otherwise (position or custom index)
        blab = [None] * len(recipe["buses"])
        order = [i for i in order if i < len(blab)] + [i for i in range(len(blab)) if i not in order]
        labels = []      # the labels the buses get when they are created in recipe order (default: max label + 1)
        for b in recipe["buses"]:
            labels.append(b["index"] if "index" in b else (max(labels) + 1 if labels else 0))
        for pos in order:
            kw = dict(recipe["buses"][pos])
            kw["index"] = labels[pos]
            blab[pos] = pp.create_bus(net, **kw)
    else:
        blab = []
        for b in recipe["buses"]:
            kw = {k: v for k, v in b.items()}
            blab.append(pp.create_bus(net, **kw))
    maps = {"bus": blab}
    for e in recipe["el"]:
        kw = {k: v for k, v in e.items() if k != "t"}
        t = e["t"]
        for k in BUS_KEYS:
            if k in kw:
                kw[k] = blab[kw[k]]
        if t == "switch":
            if kw["et"] == "b":
                kw["element"] = blab[kw["element"]]
            else:
                kw["element"] = maps[ET_TABLE[kw["et"]]][kw["element"]]
            idx = pp.create_switch(net, **kw)
        elif t == "line":
            if "std_type" in kw:
                idx = pp.create_line(net, **kw)
            else:
                idx = pp.create_line_from_parameters(net, **kw)
        elif t == "trafo":
            if "std_type" in kw:
                idx = pp.create_transformer(net, **kw)
            else:
                idx = pp.create_transformer_from_parameters(net, **kw)
        elif t == "trafo3w":
            if "std_type" in kw:
                idx = pp.create_transformer3w(net, **kw)
            else:
                idx = pp.create_transformer3w_from_parameters(net, **kw)
        else:
            idx = getattr(pp, "create_" + t)(net, **kw)
        maps.setdefault(t, []).append(idx)
    return net, maps


def element_positions(recipe, t):
    return [i for i, e in enumerate(recipe["el"]) if e["t"] == t]
