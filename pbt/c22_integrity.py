"""C22 helper: schema-driven referential-integrity checker for a pandapowerNet, plus a repair function that removes
dangling references (so that a history can go on after a violation and later violations are attributed to the
operation that really introduced them).

The checker is independent of pandapower's own helpers (false_elm_links, element_bus_tuples, ...): the schema is
derived from the tables that are present in the net:
  * every column named bus / from_bus / to_bus / hv_bus / mv_bus / lv_bus of every input table  -> net.bus.index
  * switch.element                        -> index of the table named by switch.et (b, l, t, t3)
  * measurement.element / .side           -> table named by element_type; a numeric side is a bus index, a string side
                                             must be a terminal name of the element type
  * poly_cost / pwl_cost .element         -> table named by et
  * group.element_index                   -> index (or values of reference_column) of the table named by element_type
  * controller.object.element_index       -> index of the table named by controller.object.element
  * id_characteristic_table / _spline, id_q_capability_characteristic -> ids of the characteristic tables
  * res_<x>[_est|_sc|_3ph].index          -> net[x].index
  * index of every element table unique
A violation is a dict(kind=<reference kind>, table=..., rows=[...], missing=[...]).
"""
import numpy as np
import pandas as pd

BUS_COLS = ("bus", "from_bus", "to_bus", "hv_bus", "mv_bus", "lv_bus")
SWITCH_ET = {"b": "bus", "l": "line", "t": "trafo", "t3": "trafo3w"}
SIDES = {"line": ("from", "to"), "trafo": ("hv", "lv"), "trafo3w": ("hv", "mv", "lv")}
RES_SUFFIXES = ("_est", "_sc", "_3ph")
# characteristic references: (referencing column) -> (target table, target id column)
CHAR_REFS = {
    ("trafo", "id_characteristic_table"): ("trafo_characteristic_table", "id_characteristic"),
    ("trafo3w", "id_characteristic_table"): ("trafo_characteristic_table", "id_characteristic"),
    ("trafo", "id_characteristic_spline"): ("trafo_characteristic_spline", "id_characteristic"),
    ("trafo3w", "id_characteristic_spline"): ("trafo_characteristic_spline", "id_characteristic"),
    ("shunt", "id_characteristic_table"): ("shunt_characteristic_table", "id_characteristic"),
    ("shunt", "id_characteristic_spline"): ("shunt_characteristic_spline", "id_characteristic"),
    ("gen", "id_q_capability_characteristic"): ("q_capability_curve_table", "id_q_capability_curve"),
    ("sgen", "id_q_capability_characteristic"): ("q_capability_curve_table", "id_q_capability_curve"),
}
NO_UNIQUE = ("group",)      # documented: one group = several rows with the same index
# tables whose row labels carry no meaning (rows are addressed through an id column): duplicates are repaired by
# renumbering, not by dropping rows
ROWLABEL_FREE = ("trafo_characteristic_table", "shunt_characteristic_table", "q_capability_curve_table")


def input_tables(net):
    for k in list(net.keys()):
        v = net[k]
        if isinstance(v, pd.DataFrame) and not k.startswith("_") and not k.startswith("res_"):
            yield k, v


def res_tables(net):
    for k in list(net.keys()):
        v = net[k]
        if isinstance(v, pd.DataFrame) and k.startswith("res_"):
            base = k[4:]
            for s in RES_SUFFIXES:
                if base.endswith(s):
                    base = base[:-len(s)]
            yield k, base, v


def _idx(net, table):
    if table in net and isinstance(net[table], pd.DataFrame):
        return set(net[table].index.tolist())
    return None


def _is_num(x):
    if isinstance(x, (bool, np.bool_)):
        return False
    if isinstance(x, (int, float, np.integer, np.floating)):
        return not (isinstance(x, (float, np.floating)) and np.isnan(x))
    return False


def _isna(x):
    try:
        r = pd.isna(x)
        return bool(r) if isinstance(r, (bool, np.bool_)) else False
    except Exception:
        return False


def violations(net, cap=8):
    out = []

    def add(kind, table, rows, missing):
        out.append({"kind": kind, "table": table, "rows": [_py(r) for r in rows][:cap],
                    "missing": [_py(m) for m in missing][:cap]})

    buses = set(net.bus.index.tolist())
    # 1. bus columns
    for t, df in input_tables(net):
        if t == "bus" or not len(df):
            continue
        for c in BUS_COLS:
            if c in df.columns:
                vals = df[c].values
                bad = [i for i, v in zip(df.index, vals) if _isna(v) or v not in buses]
                if bad:
                    add("%s.%s" % (t, c), t, bad, [df[c].at[i] if df.index.is_unique else None for i in bad])
    # 2. switch.element
    sw = net.switch
    if len(sw):
        for et in sorted(set(sw.et.values.tolist()), key=str):
            rows = sw.index[(sw.et == et).values]
            target = SWITCH_ET.get(et)
            tidx = _idx(net, target) if target else None
            if tidx is None:
                add("switch.et", "switch", rows, [et])
                continue
            els = sw.element.values[(sw.et == et).values]
            bad = [(r, e) for r, e in zip(rows, els) if e not in tidx]
            if bad:
                add("switch.element:%s" % et, "switch", [b[0] for b in bad], [b[1] for b in bad])
    # 3. measurements
    if "measurement" in net and len(net.measurement):
        m = net.measurement
        for et in sorted(set(m.element_type.values.tolist()), key=str):
            mask = (m.element_type == et).values
            tidx = _idx(net, et) if isinstance(et, str) else None
            if tidx is None:
                add("measurement.element_type", "measurement", m.index[mask], [et])
                continue
            bad = [(r, e) for r, e in zip(m.index[mask], m.element.values[mask]) if _isna(e) or e not in tidx]
            if bad:
                add("measurement.element:%s" % et, "measurement", [b[0] for b in bad], [b[1] for b in bad])
            bads = []
            for r, s in zip(m.index[mask], m.side.values[mask]):
                if s is None or _isna(s):
                    continue
                if isinstance(s, str):
                    try:
                        s = float(s)
                    except ValueError:
                        if s not in SIDES.get(et, ()):
                            bads.append((r, s))
                        continue
                if _is_num(s) and s not in buses:
                    bads.append((r, s))
            if bads:
                add("measurement.side", "measurement", [b[0] for b in bads], [b[1] for b in bads])
    # 4. costs
    for ct in ("poly_cost", "pwl_cost"):
        if ct in net and len(net[ct]):
            c = net[ct]
            for et in sorted(set(c.et.values.tolist()), key=str):
                mask = (c.et == et).values
                tidx = _idx(net, et) if isinstance(et, str) else None
                if tidx is None:
                    add("%s.et" % ct, ct, c.index[mask], [et])
                    continue
                bad = [(r, e) for r, e in zip(c.index[mask], c.element.values[mask]) if _isna(e) or e not in tidx]
                if bad:
                    add("%s.element:%s" % (ct, et), ct, [b[0] for b in bad], [b[1] for b in bad])
    # 5. groups
    if "group" in net and len(net.group):
        g = net.group
        for pos in range(len(g)):
            et = g.element_type.iat[pos]
            rc = g.reference_column.iat[pos]
            members = g.element_index.iat[pos]
            if isinstance(members, str) or not hasattr(members, "__iter__"):
                members = [members]
            if not isinstance(et, str) or et not in net or not isinstance(net[et], pd.DataFrame):
                add("group.element_type", "group", [g.index[pos]], [et])
                continue
            if rc is None or _isna(rc):
                pool = set(net[et].index.tolist())
            elif rc in net[et].columns:
                pool = set(net[et][rc].values.tolist())
            else:
                add("group.reference_column:%s" % et, "group", [g.index[pos]], [rc])
                continue
            miss = [x for x in members if x not in pool]
            if miss:
                add("group.member:%s" % et, "group", [g.index[pos]], miss)
    # 6. controllers
    if "controller" in net and len(net.controller):
        for ci, obj in zip(net.controller.index, net.controller["object"].values):
            d = getattr(obj, "__dict__", {})
            et = d.get("element")
            if "element_index" not in d or not isinstance(et, str):
                continue
            ei = d["element_index"]
            if isinstance(ei, str) or not hasattr(ei, "__iter__"):
                ei = [ei]
            tidx = _idx(net, et)
            if tidx is None:
                add("controller.element", "controller", [ci], [et])
                continue
            miss = [x for x in ei if x not in tidx]
            if miss:
                add("controller.element_index:%s" % et, "controller", [ci], miss)
    # 7. characteristics
    for (t, col), (target, idcol) in CHAR_REFS.items():
        if t in net and isinstance(net[t], pd.DataFrame) and col in net[t].columns and len(net[t]):
            ser = net[t][col]
            used = [(i, v) for i, v in zip(ser.index, ser.values) if not _isna(v)]
            if not used:
                continue
            if target in net and isinstance(net[target], pd.DataFrame):
                tt = net[target]
                pool = set(tt[idcol].dropna().tolist()) if idcol in tt.columns else set(tt.index.tolist())
            else:
                pool = set()
            bad = [(i, v) for i, v in used if v not in pool]
            if bad:
                add("%s.%s" % (t, col), t, [b[0] for b in bad], [b[1] for b in bad])
    # 8. result tables
    for k, base, df in res_tables(net):
        if not len(df):
            continue
        tidx = _idx(net, base)
        if tidx is None:
            continue    # result table of something that is not an element table (res_protection, ...)
        stale = [i for i in df.index if i not in tidx]
        if stale:
            add("res_index:%s" % k, k, stale, stale)
    # 9. unique indices
    for t, df in input_tables(net):
        if t in NO_UNIQUE or not len(df):
            continue
        if not df.index.is_unique:
            add("dup_index:%s" % t, t, df.index[df.index.duplicated()].tolist(), [])
    for k, base, df in res_tables(net):
        if len(df) and not df.index.is_unique:
            add("dup_index:%s" % k, k, df.index[df.index.duplicated()].tolist(), [])
    return out


def _py(x):
    if isinstance(x, np.integer):
        return int(x)
    if isinstance(x, np.floating):
        return float(x)
    if isinstance(x, (int, float, str, bool)) or x is None:
        return x
    return repr(x)


def repair(net, max_rounds=6):
    """remove every dangling reference (the referencing row, group member, or characteristic id). Returns True
    when the net is clean afterwards."""
    for _ in range(max_rounds):
        vs = violations(net, cap=None)
        if not vs:
            return True
        # duplicates first: the other repairs address rows by label
        dups = [v for v in vs if v["kind"].startswith("dup_index:")]
        if dups:
            for v in dups:
                t = v["table"]
                if t in ROWLABEL_FREE:
                    net[t] = net[t].reset_index(drop=True)
                else:
                    net[t] = net[t][~net[t].index.duplicated(keep="first")]
            continue
        for v in vs:
            kind, t = v["kind"], v["table"]
            if kind.startswith("group."):
                _repair_groups(net)
            elif kind.startswith("controller."):
                net.controller = net.controller.drop([r for r in v["rows"] if r in net.controller.index])
            elif kind.startswith("res_index:"):
                base = [b for k, b, _ in res_tables(net) if k == t][0]
                keep = net[t].index.isin(net[base].index)
                net[t] = net[t][keep]
            elif (t, kind.split(".", 1)[-1]) in CHAR_REFS:
                col = kind.split(".", 1)[1]
                target, idcol = CHAR_REFS[(t, col)]
                if target in net and isinstance(net[target], pd.DataFrame) and idcol in net[target].columns:
                    pool = set(net[target][idcol].dropna().tolist())
                else:
                    pool = set()
                ser = net[t][col]
                mask = [(not _isna(x)) and x not in pool for x in ser.values]
                net[t].loc[mask, col] = pd.NA
            else:
                # a referencing row of switch / measurement / cost / element table: recompute by kind, drop rows
                df = net[t]
                rows = [r for r in df.index.unique() if r in set(v["rows"])]
                if len(rows):
                    net[t] = df.drop(rows)
                    rt = "res_" + t
                    if rt in net and isinstance(net[rt], pd.DataFrame) and len(net[rt]):
                        net[rt] = net[rt][net[rt].index.isin(net[t].index)]
    return not violations(net)


def _repair_groups(net):
    g = net.group
    keep = np.ones(len(g), dtype=bool)
    for pos in range(len(g)):
        et = g.element_type.iat[pos]
        rc = g.reference_column.iat[pos]
        if not isinstance(et, str) or et not in net or not isinstance(net[et], pd.DataFrame):
            keep[pos] = False
            continue
        if rc is None or _isna(rc):
            pool = set(net[et].index.tolist())
        elif rc in net[et].columns:
            pool = set(net[et][rc].values.tolist())
        else:
            keep[pos] = False
            continue
        members = g.element_index.iat[pos]
        if isinstance(members, str) or not hasattr(members, "__iter__"):
            members = [members]
        new = [x for x in members if x in pool]
        if not new:
            keep[pos] = False
        elif len(new) != len(list(members)):
            g.iat[pos, g.columns.get_loc("element_index")] = new
    net.group = g.loc[keep]


def incoming_refs(net, table, rows=None):
    """kinds of references that currently point INTO `table` (optionally only into the given rows) - used for labels
    and for the non-triviality rule"""
    kinds = set()
    sel = set(net[table].index.tolist()) if rows is None else set(rows)
    if not sel:
        return kinds
    if table == "bus":
        for t, df in input_tables(net):
            if t == "bus" or not len(df):
                continue
            for c in BUS_COLS:
                if c in df.columns and df[c].isin(sel).any():
                    kinds.add("buscol:" + t)
    et_short = {v: k for k, v in SWITCH_ET.items()}.get(table)
    sw = net.switch
    if et_short and len(sw) and ((sw.et == et_short) & sw.element.isin(sel)).any():
        kinds.add("switch:" + et_short)
    if "measurement" in net and len(net.measurement):
        m = net.measurement
        if ((m.element_type == table) & m.element.isin(sel)).any():
            kinds.add("measurement")
        if table == "bus":
            num = pd.to_numeric(m.side, errors="coerce")
            if num.isin(sel).any():
                kinds.add("measurement.side")
    for ct in ("poly_cost", "pwl_cost"):
        if ct in net and len(net[ct]) and ((net[ct].et == table) & net[ct].element.isin(sel)).any():
            kinds.add(ct)
    if "group" in net and len(net.group):
        g = net.group
        for pos in range(len(g)):
            if g.element_type.iat[pos] == table:
                rc = g.reference_column.iat[pos]
                mem = g.element_index.iat[pos]
                mem = [mem] if isinstance(mem, str) or not hasattr(mem, "__iter__") else list(mem)
                if rc is None or _isna(rc):
                    if any(x in sel for x in mem):
                        kinds.add("group")
                elif rc in net[table].columns:
                    vals = set(net[table].loc[[r for r in net[table].index if r in sel], rc].tolist())
                    if any(x in vals for x in mem):
                        kinds.add("group-ref")
    if "controller" in net and len(net.controller):
        for obj in net.controller["object"].values:
            d = getattr(obj, "__dict__", {})
            if d.get("element") == table and "element_index" in d:
                ei = d["element_index"]
                ei = [ei] if isinstance(ei, str) or not hasattr(ei, "__iter__") else list(ei)
                if any(x in sel for x in ei):
                    kinds.add("controller")
    for k, base, df in res_tables(net):
        if base == table and len(df) and df.index.isin(list(sel)).any():
            kinds.add("res")
    return kinds
