"""Runner: sharded seeded Hypothesis search, replay tier, evidence, VIOLATION / KNOWN-FINDING protocol.

Exit codes: 0 held (KNOWN-FINDING lines allowed), 1 VIOLATION, 2 harness error.
See DESIGN.md sec. 1.4/1.5.
"""
import argparse
import hashlib
import importlib
import json
import multiprocessing as mp
import os
import sys
import time
import traceback

ROOT = os.path.dirname(os.path.dirname(os.path.abspath(__file__)))
KNOWN_FILE = os.path.join(ROOT, "known_findings.json")


def jdump(obj):
    return json.dumps(obj, sort_keys=True, default=_jdefault)


def _jdefault(o):
    import numpy as np
    if isinstance(o, (np.integer,)):
        return int(o)
    if isinstance(o, (np.floating,)):
        return float(o)
    if isinstance(o, (np.bool_,)):
        return bool(o)
    if isinstance(o, np.ndarray):
        return o.tolist()
    if isinstance(o, (set, frozenset, tuple)):
        return list(o)
    if isinstance(o, complex):
        return [o.real, o.imag]
    return repr(o)


def case_hash(case):
    return hashlib.sha1(jdump(case).encode()).hexdigest()[:16]


def load_known(prop):
    if not os.path.exists(KNOWN_FILE):
        return {}
    with open(KNOWN_FILE) as f:
        entries = json.load(f)
    extra = os.environ.get("PBT_KNOWN_EXTRA")       # development only: candidate entries not yet merged into the committed file
    if extra and os.path.exists(extra):
        with open(extra) as f:
            entries = entries + json.load(f)
    return {e["signature"]: e for e in entries
            if e["property"] == prop and e.get("status") == "known"}


def load_module(prop):
    return importlib.import_module("pbt.props.%s" % prop.lower())


def quiet():
    import logging
    import warnings
    warnings.filterwarnings("ignore")
    logging.disable(logging.CRITICAL)
    os.environ.setdefault("PYTHONWARNINGS", "ignore")


def assert_repo():
    import pandapower
    p = os.path.realpath(pandapower.__file__)
    want = os.path.realpath(os.environ.get("PBT_REPO", "/repo")) + "/"
    if not p.startswith(want):
        raise RuntimeError("pandapower not imported from %s: %s" % (want, p))


class Stats:
    def __init__(self):
        self.evaluations = 0
        self.nontrivial = set()
        self.labels = {}
        self.samples = []
        self.known_hits = {}
        self.failures = []   # dicts: sig, case, detail
        self.skipped = {}
        self.time_capped = False

    def add(self, case, res, want_sample=True):
        self.evaluations += 1
        for l in res.labels:
            self.labels[l] = self.labels.get(l, 0) + 1
        if res.skipped:
            self.skipped[res.skipped] = self.skipped.get(res.skipped, 0) + 1
        if res.nontrivial:
            h = case_hash(case)
            if h not in self.nontrivial:
                self.nontrivial.add(h)
                if want_sample and len(self.samples) < 2:
                    self.samples.append(case)

    def to_json(self):
        return {"evaluations": self.evaluations, "nontrivial": sorted(self.nontrivial),
                "labels": self.labels, "samples": self.samples, "known_hits": self.known_hits,
                "failures": self.failures, "skipped": self.skipped, "time_capped": self.time_capped}


class HarnessAbort(BaseException):
    pass


def run_check(mod, case):
    """Run the plain oracle. Harness errors propagate; property failures are in res.failures."""
    return mod.check(case)


def worker(args):
    prop, tier, seed, shard, nshards, n_examples, deadline_s, opts = args
    t0 = time.time()
    devnull = open(os.devnull, "w")
    real_stdout = sys.stdout
    sys.stdout = devnull
    sys.stderr = devnull
    try:
        quiet()
        assert_repo()
        import hypothesis
        from hypothesis import given, settings, HealthCheck, Phase
        mod = load_module(prop)
        known = load_known(prop)
        stats = Stats()
        seen_new = {}
        noshrink = getattr(mod, "NO_SHRINK", {}).get(tier, False) or opts.get("noshrink")
        shrink_s = getattr(mod, "SHRINK_S", {"quick": 20, "thorough": 90})[tier]

        # exhaustive part (finite domain), split over the shards
        if hasattr(mod, "enumerate_cases"):
            for i, case in enumerate(mod.enumerate_cases(tier)):
                if i % nshards != shard:
                    continue
                res = run_check(mod, case)
                stats.add(case, res)
                for sig, detail in res.failures:
                    if sig in known:
                        stats.known_hits[sig] = stats.known_hits.get(sig, 0) + 1
                    elif sig not in seen_new:
                        seen_new[sig] = {"sig": sig, "case": case, "detail": detail}

        if n_examples > 0 and hasattr(mod, "strategy"):
            rounds = 0
            remaining = n_examples
            while remaining > 0 and rounds < 6:
                rounds += 1
                state = {"last_fail": None, "count": 0}
                hseed = int(hashlib.sha1(("%s|%s|%s|%s" % (seed, prop, shard, rounds)).encode()).hexdigest()[:12], 16)

                def body(case):
                    now = time.time()
                    if now - t0 > deadline_s:
                        stats.time_capped = True
                        return
                    shrinking = state["last_fail"] is not None
                    if shrinking and now - state["fail_t"] > shrink_s:
                        state["stop_shrink"] = True     # shrink budget used up: let Hypothesis finish quickly
                        return
                    try:
                        res = run_check(mod, case)
                    except Exception:
                        # a bug in the property module (or an exception the module did not classify): harness error
                        raise HarnessAbort(traceback.format_exc() + "\ncase: " + jdump(case)[:3000])
                    if not shrinking:
                        state["count"] += 1
                        stats.add(case, res)
                    for sig, detail in res.failures:
                        if sig in known:
                            if not shrinking:
                                stats.known_hits[sig] = stats.known_hits.get(sig, 0) + 1
                            continue
                        if sig in seen_new and seen_new[sig].get("done"):
                            continue
                        if shrinking and sig != state["last_fail"]["sig"]:
                            continue      # shrink towards the same root cause only
                        if not shrinking:
                            state["fail_t"] = now
                        state["last_fail"] = {"sig": sig, "case": case, "detail": detail}
                        raise AssertionError(sig)

                phases = [Phase.generate] if noshrink else [Phase.generate, Phase.shrink]
                test = settings(max_examples=remaining, database=None, deadline=None, derandomize=False,
                                report_multiple_bugs=False, phases=phases, print_blob=False,
                                suppress_health_check=list(HealthCheck))(
                    hypothesis.seed(hseed)(given(mod.strategy(tier))(body)))
                try:
                    test()
                    break
                except AssertionError:
                    f = state["last_fail"]
                    if f is None:
                        raise
                    f["done"] = True
                    seen_new[f["sig"]] = f
                    remaining -= state["count"]
                except hypothesis.errors.Flaky:
                    f = state["last_fail"] or {"sig": "flaky", "case": None, "detail": {}}
                    f = dict(f)
                    if not state.get("stop_shrink") and not stats.time_capped:
                        f["sig"] = "FLAKY:" + f["sig"]
                    f["done"] = True
                    seen_new[f["sig"]] = f
                    remaining -= state["count"]
        for f in seen_new.values():
            f.pop("done", None)
            stats.failures.append(f)
        out = stats.to_json()
        out["wall_s"] = time.time() - t0
        return ("ok", shard, out)
    except HarnessAbort as e:
        return ("error", shard, str(e))
    except BaseException:
        return ("error", shard, traceback.format_exc())
    finally:
        sys.stdout = real_stdout


def replay_file(mod, path, known):
    with open(path) as f:
        doc = json.load(f)
    case = doc["case"] if isinstance(doc, dict) and "case" in doc else doc
    res = run_check(mod, case)
    new = [(s, d) for s, d in res.failures if s not in known]
    kn = [s for s, d in res.failures if s in known]
    return case, res, new, kn


def write_failure(prop, f):
    d = os.path.join(ROOT, "failures", prop)
    os.makedirs(d, exist_ok=True)
    h = hashlib.sha1((f["sig"] + jdump(f["case"])).encode()).hexdigest()[:12]
    path = os.path.join(d, "fail-%s.json" % h)
    with open(path, "w") as fh:
        fh.write(json.dumps({"property": prop, "signature": f["sig"], "case": f["case"], "detail": f["detail"]},
                            indent=1, default=_jdefault, sort_keys=True))
    return path


def main():
    ap = argparse.ArgumentParser()
    ap.add_argument("prop")
    ap.add_argument("--tier", default=os.environ.get("VERIF_TIER", "quick"))
    ap.add_argument("--replay")
    ap.add_argument("--examples", type=int)
    ap.add_argument("--shards", type=int, default=int(os.environ.get("VERIF_SHARDS", "16")))
    ap.add_argument("--noshrink", action="store_true")
    a = ap.parse_args()
    prop = a.prop.upper()
    tier = a.tier if a.tier in ("quick", "thorough") else "quick"
    try:
        seed = int(os.environ.get("VERIF_SEED", "1"))
    except ValueError:
        seed = 1
    t0 = time.time()
    try:
        quiet()
        assert_repo()
        mod = load_module(prop)
        known = load_known(prop)
    except Exception:
        traceback.print_exc()
        print("HARNESS-ERROR property=%s import failed" % prop)
        return 2

    if a.replay:
        try:
            case, res, new, kn = replay_file(mod, a.replay, known)
        except Exception:
            traceback.print_exc()
            print("HARNESS-ERROR property=%s replay raised" % prop)
            return 2
        for s in kn:
            print("KNOWN-FINDING: property=%s %s" % (prop, known[s]["what"]))
        for s, d in new:
            print("failure signature: %s\n detail: %s" % (s, jdump(d)[:2000]))
        if new:
            print("VIOLATION property=%s replay=%s" % (prop, a.replay))
            return 1
        print("replay ok: property=%s %s" % (prop, a.replay))
        return 0

    violations = []   # (sig, path)
    known_hits = {}
    # --- replay tier
    rdir = os.path.join(ROOT, "replays", prop)
    n_replays = 0
    replay_stats = Stats()
    if os.path.isdir(rdir):
        for fn in sorted(os.listdir(rdir)):
            if not fn.endswith(".json"):
                continue
            path = os.path.join(rdir, fn)
            try:
                case, res, new, kn = replay_file(mod, path, known)
            except Exception:
                traceback.print_exc()
                print("HARNESS-ERROR property=%s replay %s raised" % (prop, fn))
                return 2
            n_replays += 1
            replay_stats.add(case, res, want_sample=False)
            for s in kn:
                known_hits[s] = known_hits.get(s, 0) + 1
            for s, d in new:
                print("replay %s failed: %s %s" % (fn, s, jdump(d)[:1500]))
                violations.append((s, path))

    # --- generated tier
    budget = getattr(mod, "EXAMPLES", {"quick": 200, "thorough": 2000})
    total = a.examples if a.examples is not None else budget[tier]
    nshards = max(1, min(a.shards, total if total > 0 else a.shards))
    deadline_s = getattr(mod, "DEADLINE_S", {"quick": 240, "thorough": 3000})[tier]
    if os.environ.get("PBT_DEADLINE_S"):      # development aid on a loaded machine; a cap hit is "inconclusive", never a violation
        deadline_s = float(os.environ["PBT_DEADLINE_S"])
    per = (total + nshards - 1) // nshards if total > 0 else 0
    jobs = [(prop, tier, seed, k, nshards, per, deadline_s, {"noshrink": a.noshrink}) for k in range(nshards)]
    ctx = mp.get_context("spawn")
    if total <= 0 and not hasattr(mod, "enumerate_cases"):
        results = []
    elif nshards == 1:
        results = [worker(jobs[0])]
    else:
        with ctx.Pool(nshards) as pool:
            results = pool.map(worker, jobs, chunksize=1)
    merged = Stats()
    merged.evaluations = replay_stats.evaluations
    merged.nontrivial |= replay_stats.nontrivial
    harness_errors = []
    time_capped = False
    for status, shard, out in results:
        if status != "ok":
            harness_errors.append((shard, out))
            continue
        merged.evaluations += out["evaluations"]
        merged.nontrivial |= set(out["nontrivial"])
        for k, v in out["labels"].items():
            merged.labels[k] = merged.labels.get(k, 0) + v
        for k, v in out["skipped"].items():
            merged.skipped[k] = merged.skipped.get(k, 0) + v
        for k, v in out["known_hits"].items():
            known_hits[k] = known_hits.get(k, 0) + v
        if len(merged.samples) < 4:
            merged.samples.extend(out["samples"][:1])
        time_capped = time_capped or out["time_capped"]
        merged.failures.extend(out["failures"])
    if harness_errors:
        for shard, tb in harness_errors:
            print("HARNESS-ERROR property=%s shard=%s\n%s" % (prop, shard, tb))
        return 2

    # one violation per new signature (smallest case)
    by_sig = {}
    for f in merged.failures:
        cur = by_sig.get(f["sig"])
        if cur is None or len(jdump(f["case"])) < len(jdump(cur["case"])):
            by_sig[f["sig"]] = f
    for sig, f in sorted(by_sig.items()):
        path = write_failure(prop, f)
        print("failure signature: %s\n detail: %s" % (sig, jdump(f["detail"])[:1500]))
        print(" replay-case: %s" % jdump({"property": prop, "case": f["case"]})[:20000])     # so that a log alone reproduces it
        violations.append((sig, path))

    for s, n in sorted(known_hits.items()):
        print("KNOWN-FINDING: property=%s %s [signature=%s, hits=%d]" % (prop, known[s]["what"], s, n))

    wall = time.time() - t0
    if not merged.samples:
        merged.samples = [{"note": "no non-trivial sample collected"}]
    ev = {
        "property_id": prop, "tier": tier, "seed": seed,
        "level": getattr(mod, "LEVEL", "exploration"),
        "coverage": {
            "evaluations": merged.evaluations,
            "distinct_nontrivial": len(merged.nontrivial),
            "rule": getattr(mod, "RULE", ""),
            "samples": merged.samples[:4],
            "labels": dict(sorted(merged.labels.items())),
            "skipped": merged.skipped,
            "replays_run": n_replays,
            "known_finding_hits": known_hits,
            "time_capped": time_capped,
            "shards": nshards,
            "exhaustive": bool(getattr(mod, "EXHAUSTIVE", False)),
        },
        "assumptions": getattr(mod, "ASSUMPTIONS", []),
        "wall_s": round(wall, 2),
        "violations": len(violations),
    }
    os.makedirs(os.path.join(ROOT, "evidence"), exist_ok=True)
    with open(os.path.join(ROOT, "evidence", "%s.json" % prop), "w") as f:
        f.write(json.dumps(ev, indent=1, default=_jdefault, sort_keys=True))
    print("property=%s tier=%s seed=%d evaluations=%d distinct_nontrivial=%d known_hits=%d wall=%.1fs%s" % (
        prop, tier, seed, merged.evaluations, len(merged.nontrivial), sum(known_hits.values()), wall,
        " (time-capped: inconclusive coverage)" if time_capped else ""))
    top = sorted(merged.labels.items(), key=lambda kv: -kv[1])[:14]
    print("labels: " + ", ".join("%s=%d" % kv for kv in top))
    if violations:
        for sig, path in violations:
            print("VIOLATION property=%s replay=%s" % (prop, path))
        return 1
    return 0


if __name__ == "__main__":
    try:
        rc = main()
    except SystemExit:
        raise
    except BaseException:
        traceback.print_exc()
        print("HARNESS-ERROR unexpected")
        rc = 2
    sys.exit(rc)
