"""Shared generator and brute-force oracle for the contingency-analysis properties C14 (run_contingency reports the
true extremes) and C15 (run_contingency_parallel equals run_contingency).  DESIGN.md sec. 2, C14/C15.

A *contingency case* (JSON) is
  {"recipe": <netgen recipe>,                       meshed network
   "limits": {"line": [..], "trafo": [..], ..},     max_loading_percent per element (position order, None = NaN = no limit)
   "nm1_col": bool,                                 limits go to max_loading_percent_nminus1 (max_loading_percent = 1e4)
   "relabel": {"line": [offset, step, reverse]},    custom (possibly descending) index labels of the branch tables
   "stress": float | "m0.9",                        factor on all load p/q; "m0.9" = 0.9 x the factor at which the N-0 power
                                                    flow stops converging (drives some N-1 cases into non-convergence)
   "nm1": [["trafo", [1, 0]], ["line", [3, 0, 2]]], the N-1 case dict as an ORDERED list (positions in the tables)
   "opt": {"fn": "runpp"|"rundcpp", "style": "kwargs"|"dicts"|"user", "angles": bool, "write_to_net": bool,
           "nm1_max_iteration": int}}               iteration limit of the N-1 power flows (style "dicts" only)
"""
import copy
import math

import numpy as np
from hypothesis import strategies as st

from pbt import netgen
from pbt.core import pf_tol, silence, exc_sig

BRANCH = ("line", "trafo", "trafo3w")
ETCODE = {"line": "l", "trafo": "t", "trafo3w": "t3"}
LIMITS = [0.5, 3.0, 10.0, 25.0, 50.0, 80.0, 100.0, 130.0, None]
MAX_CASES = 7

# tolerances (DESIGN.md sec. 1.6): voltages 1e-8 p.u., loadings 1e-6 relative (+1e-7 % absolute)
TOL_VM = 1e-8
TOL_L_REL = 1e-6
TOL_L_ABS = 1e-7

LEVEL_SETS = [[110.0], [20.0], [10.0], [110.0, 20.0], [20.0, 0.4], [110.0, 10.0], [220.0, 110.0], [380.0, 110.0],
              [110.0, 20.0, 0.4], [110.0, 20.0, 0.4], [380.0, 110.0, 20.0], [380.0, 110.0, 20.0], [220.0, 110.0, 10.0]]

PROFILE = netgen.profile(
    level_sets=LEVEL_SETS, nb_level=(2, 5), nb_max=11, extra_branches=(1, 4),
    branch_kinds={"line": 12, "impedance": 1, "bb": 1}, max_per_bus=2,
    bus_kinds={"load": 7, "sgen": 2, "gen": 2, "storage": 1, "shunt": 1, "ward": 1, "xward": 0, "motor": 1,
               "asymmetric_load": 0, "asymmetric_sgen": 0},
    oos=0, zip=False, open_prob=0.15, second_slack=2, noslack_island=True, dcline=False,
    shifts=(0.0, 0.0, 30.0, 150.0), sn_choices=(1.0, 1.0, 10.0, 100.0), trafo_parallel_pair=True)


_P_OOS_BRANCH = [False] * 11 + [True]
_P_OOS_ELEMENT = [False] * 14 + [True]
_P_OOS_BUS = [False] * 39 + [True]


def _count(recipe, t):
    return sum(1 for e in recipe["el"] if e["t"] == t)


@st.composite
def contingency_case(draw, profile=None):
    recipe = draw(netgen.grid(profile or PROFILE))
    # out-of-service parts are drawn here (netgen's own switch uses st.floats, which is strongly biased towards 0)
    slack_buses = {e["bus"] for e in recipe["el"] if e["t"] == "ext_grid" or (e["t"] == "gen" and e.get("slack"))}
    for e in recipe["el"]:
        if e["t"] in ("line", "trafo", "trafo3w", "impedance"):
            if draw(st.sampled_from(_P_OOS_BRANCH)):
                e["in_service"] = False
        elif e["t"] not in ("switch", "ext_grid") and not e.get("slack"):
            if draw(st.sampled_from(_P_OOS_ELEMENT)):
                e["in_service"] = False
    for k, b in enumerate(recipe["buses"]):
        if k not in slack_buses and draw(st.sampled_from(_P_OOS_BUS)):
            b["in_service"] = False
    # identical double circuits: two N-1 cases with bit-identical consequences (exact ties in the running maxima)
    lines = [e for e in recipe["el"] if e["t"] == "line" and e.get("in_service", True)]
    if lines and draw(st.sampled_from([False, False, True])):
        for _ in range(draw(st.sampled_from([1, 1, 2]))):
            recipe["el"].append(copy.deepcopy(draw(st.sampled_from(lines))))
    n = {t: _count(recipe, t) for t in BRANCH}
    types = [t for t in BRANCH if n[t] > 0]
    limits = {t: draw(st.lists(st.sampled_from(LIMITS), min_size=n[t], max_size=n[t])) for t in types}
    relabel = {}
    for t in types:
        if draw(st.sampled_from([False, False, True])):
            relabel[t] = [draw(st.sampled_from([0, 1, 7, 40])), draw(st.sampled_from([1, 1, 2, 3])),
                          draw(st.booleans())]
    order = list(draw(st.permutations(types))) if types else []
    nm1 = []
    left = MAX_CASES
    for t in order:
        if left <= 0:
            break
        # drawn size first (st.lists alone prefers very short lists); transformers are few: at most 3 of them
        k = min(draw(st.sampled_from([4, 1, 2, 3, 5, 6, 3, 0] if t == "line" else [2, 1, 3, 2, 0])), n[t], left)
        idx = draw(st.lists(st.integers(0, n[t] - 1), unique=True, min_size=k, max_size=k))
        if idx or draw(st.sampled_from([False, False, False, True])):
            nm1.append([t, idx])
            left -= len(idx)
    fn = draw(st.sampled_from(["runpp"] * 6 + ["rundcpp"]))
    opt = {"fn": fn, "style": draw(st.sampled_from(["kwargs", "dicts", "dicts", "user"])),
           "nm1_max_iteration": draw(st.sampled_from([25, 25, 4, 3, 2])),
           "angles": draw(st.sampled_from([True, True, False])), "write_to_net": draw(st.sampled_from([True, True, False]))}
    return {"recipe": recipe, "limits": limits, "nm1_col": draw(st.sampled_from([False, False, False, True])), "relabel": relabel,
            "stress": draw(st.sampled_from([1.0, 1.0, 1.6, 2.5, 4.0, "m0.97", "m0.9", "m0.75"])), "nm1": nm1, "opt": opt}


def _relabel(net, maps, table, spec):
    import pandas as pd
    off, step, rev = spec
    old = list(net[table].index)
    labels = [off + step * k for k in range(len(old))]
    if rev:
        labels.reverse()
    m = dict(zip(old, labels))
    net[table].index = pd.Index(labels, dtype=np.int64)
    mask = (net.switch.et == ETCODE[table]).values
    if mask.any():
        net.switch.loc[mask, "element"] = [m[e] for e in net.switch.element.values[mask]]
    maps[table] = [m[i] for i in maps[table]]


def prepare(case):
    """-> (net, maps, nminus1_cases dict in the drawn order, flat ordered list of (etype, index label))"""
    import pandapower as pp
    net, maps = netgen.build(case["recipe"])
    for t, spec in case.get("relabel", {}).items():
        if len(net[t]):
            _relabel(net, maps, t, spec)
    for t, lims in case["limits"].items():
        vals = [float("nan") if v is None else float(v) for v in lims]
        if case.get("nm1_col"):
            net[t]["max_loading_percent"] = 1e4
            net[t]["max_loading_percent_nminus1"] = vals
        else:
            net[t]["max_loading_percent"] = vals
    opt = case["opt"]
    if opt["style"] == "user" and opt["fn"] == "runpp":
        pp.set_user_pf_options(net, **pf_kwargs(case))
    f = case.get("stress", 1.0)
    if isinstance(f, str):     # "m0.9": 90 % of the load factor at which the N-0 power flow stops converging
        f = float(f[1:]) * critical_load_factor(net, case)
    if f != 1.0 and len(net.load):
        net.load["p_mw"] = net.load.p_mw * f
        net.load["q_mvar"] = net.load.q_mvar * f
    nm1 = {}
    flat = []
    for t, pos in case["nm1"]:
        idx = [maps[t][p] for p in pos]
        nm1[t] = {"index": idx}
        flat.extend((t, i) for i in idx)
    return net, maps, nm1, flat


def critical_load_factor(net, case):
    """largest load factor (doubling + 5 bisections, deterministic) for which the N-0 power flow still converges"""
    if not len(net.load) or case["opt"]["fn"] != "runpp":
        return 1.0
    n = copy.deepcopy(net)
    p0, q0 = n.load.p_mw.values.copy(), n.load.q_mvar.values.copy()

    def ok(f):
        n.load["p_mw"] = p0 * f
        n.load["q_mvar"] = q0 * f
        try:
            plain_pf(n, case)
            return True
        except Exception:
            return False
    if not ok(1.0):
        return 1.0
    lo, hi = 1.0, 2.0
    while ok(hi):
        lo, hi = hi, hi * 2
        if hi > 300:
            return 1.0
    for _ in range(5):
        mid = 0.5 * (lo + hi)
        if ok(mid):
            lo = mid
        else:
            hi = mid
    return lo


def pf_kwargs(case, nminus1=False):
    if case["opt"]["fn"] != "runpp":
        return {}
    it = 25
    if nminus1 and case["opt"]["style"] == "dicts":
        it = int(case["opt"].get("nm1_max_iteration", 25))    # a tight iteration limit makes some N-1 cases fail
    return {"tolerance_mva": pf_tol(case["recipe"].get("sn_mva", 1.0)), "max_iteration": it,
            "calculate_voltage_angles": bool(case["opt"]["angles"])}


def call_kwargs(case):
    """keyword arguments for run_contingency / run_contingency_parallel according to the option style"""
    import pandapower as pp
    opt = case["opt"]
    kw = {"write_to_net": bool(opt["write_to_net"])}
    if opt["fn"] == "rundcpp":
        kw["contingency_evaluation_function"] = pp.rundcpp
        return kw
    if opt["style"] == "kwargs":
        kw.update(pf_kwargs(case))
    elif opt["style"] == "dicts":
        kw["pf_options"] = pf_kwargs(case)
        kw["pf_options_nminus1"] = pf_kwargs(case, nminus1=True)
    return kw     # "user": options were stored with set_user_pf_options


def plain_pf(net, case, nminus1=False):
    """the plain power flow that the analysis is documented to run (same options)"""
    import pandapower as pp
    with silence():
        if case["opt"]["fn"] == "rundcpp":
            pp.rundcpp(net)
        elif case["opt"]["style"] == "user":
            pp.runpp(net)
        else:
            pp.runpp(net, **pf_kwargs(case, nminus1))


def observed(net):
    out = {"bus": net.res_bus.vm_pu.values.astype(float).copy()}
    for t in BRANCH:
        if len(net[t]):
            out[t] = net["res_" + t].loading_percent.values.astype(float).copy()
    return out


def brute_force(net0, flat, case):
    """own N-1 loop: deep copy per case with that element out of service, plain power flow.
    -> list (in case order) of {"case": (t, i), "status": "skipped"|"failed"|"ok", "vals": {...}, "error": str}"""
    out = []
    for t, i in flat:
        rec = {"case": (t, i), "status": "ok", "vals": None, "error": None}
        if not bool(net0[t].at[i, "in_service"]):
            rec["status"] = "skipped"
            out.append(rec)
            continue
        n = copy.deepcopy(net0)
        n[t].at[i, "in_service"] = False
        try:
            plain_pf(n, case, nminus1=True)
            rec["vals"] = observed(n)
        except Exception as e:   # run_contingency documents nothing else: any failing case is left out
            rec["status"] = "failed"
            rec["error"] = type(e).__name__
            rec["sig"] = exc_sig(e)
        out.append(rec)
    return out


def limit_values(net, t):
    col = "max_loading_percent_nminus1" if "max_loading_percent_nminus1" in net[t].columns else "max_loading_percent"
    return net[t][col].values.astype(float)


def expected(net0, bf):
    """true extremes / overloading per table from the brute-force records.
    -> exp[t] = {"max": arr, "min": arr, "own": arr(bool: element is an executed+converged case)}, over[(t,i)] = bool|None"""
    ok = [r for r in bf if r["status"] == "ok"]
    exp = {}
    for t in ("bus",) + BRANCH:
        if not len(net0[t]):
            continue
        index = list(net0[t].index)
        n = len(index)
        mx = np.full(n, np.nan)
        mn = np.full(n, np.nan)
        for r in ok:
            v = r["vals"][t].copy()
            if r["case"][0] == t:
                v[index.index(r["case"][1])] = np.nan      # an element's own outage does not count
            mx = np.fmax(mx, v)
            mn = np.fmin(mn, v)
        exp[t] = {"max": mx, "min": mn}
    over = {}
    for r in bf:
        if r["status"] != "ok":
            over[r["case"]] = False
            continue
        flag = False
        for t in BRANCH:
            if not len(net0[t]):
                continue
            lim = limit_values(net0, t)
            v = r["vals"][t]
            with np.errstate(invalid="ignore"):
                hit = v > lim
                near = np.abs(v - lim) <= TOL_L_ABS + TOL_L_REL * np.abs(lim)
            if np.any(hit & ~near):
                flag = True
            elif np.any(near) and flag is False:
                flag = None          # exactly at the limit: not decidable within tolerance
        over[r["case"]] = flag
    return exp, over


def close_arr(a, b, rel, ab):
    """NaN-aware element-wise closeness -> bool array"""
    a = np.asarray(a, dtype=float)
    b = np.asarray(b, dtype=float)
    with np.errstate(invalid="ignore"):
        ok = np.abs(a - b) <= ab + rel * np.fmax(np.abs(a), np.abs(b))
    return ok | (np.isnan(a) & np.isnan(b))


def tol_of(t):
    return (0.0, TOL_VM) if t == "bus" else (TOL_L_REL, TOL_L_ABS)


def cause_status(t, pos, idx, cause_el, cause_idx, reported_max, bf_ok, in_service_mask=True):
    """Validity of the cause attribution of element (t, idx) (position pos in its table) against the brute-force
    records `bf_ok` (converged cases in the order in which the analysed function aggregated them).
    -> "valid" | "self" | "unset" | "not-a-case" | "not-the-max" and the flag `nan_shape`: the first case that attains
    the maximum was aggregated while the running maximum of the element was still NaN and was not the first aggregated
    case (the shape of the suspected defect F6).  in_service_mask=False: the own outage counts with its value."""
    vals = []
    for r in bf_ok:
        v = r["vals"][t][pos]
        if in_service_mask and r["case"] == (t, idx):
            v = float("nan")
        vals.append(v)
    rel, ab = tol_of(t)
    attain = [k for k, v in enumerate(vals) if not math.isnan(v) and abs(v - reported_max) <= ab + rel * abs(reported_max)]
    # the aggregation assigns the cause at the FIRST case that attains the maximum (later ties are not `>`)
    nan_shape = bool(attain) and attain[0] > 0 and all(math.isnan(x) for x in vals[:attain[0]])
    if cause_el is None or not isinstance(cause_el, str):
        return "unset", nan_shape
    key = (cause_el, int(cause_idx))
    if key == (t, idx):
        return "self", nan_shape
    ks = [k for k, r in enumerate(bf_ok) if r["case"] == key]
    if not ks:
        return "not-a-case", nan_shape
    if any(k in attain for k in ks):
        return "valid", nan_shape
    return "not-the-max", nan_shape


def check_cause(res, rc, t, index, bf_ok, prefix="cause"):
    """cause attribution of table t against the brute force (aggregation order = order of bf_ok) -> res.fail(...)"""
    if "max_loading_percent" not in rc[t]:
        return
    for pos, idx in enumerate(index):
        mx = rc[t]["max_loading_percent"][pos]
        if mx is None or math.isnan(mx):
            continue
        ce, ci = rc[t]["cause_element"][pos], rc[t]["cause_index"][pos]
        status, nan_shape = cause_status(t, pos, idx, ce, ci, float(mx), bf_ok)
        if status != "valid":
            sig = "%s/%s" % (prefix, "stale-after-nan-running-max" if nan_shape else status)
            res.fail(sig, element=[t, idx], reported_cause=[repr(ce), int(ci) if isinstance(ce, str) else None],
                     status=status, reported_max=float(mx),
                     loading_per_case=[[list(r["case"]), float(r["vals"][t][pos])] for r in bf_ok])


WRITTEN = {"bus": ("max_vm_pu", "min_vm_pu"),
           "branch": ("max_loading_percent", "min_loading_percent", "causes_overloading", "cause_element", "cause_index")}


def check_written(res, net, rc, t, index, write_to_net, prefix="write_to_net"):
    """the additional res_<t> columns equal the returned dict (write_to_net=True) or are absent (False)"""
    rt = net["res_" + t]
    for col in WRITTEN["bus" if t == "bus" else "branch"]:
        if col not in rc[t]:
            continue
        if not write_to_net:
            if col in rt.columns:
                res.fail(prefix + "/written-although-false", table=t, column=col)
            continue
        if col not in rt.columns:
            res.fail(prefix + "/column-missing", table=t, column=col)
            continue
        a, b = rt[col].values, rc[t][col]
        if col.startswith(("max_", "min_")):
            same = bool(close_arr(a.astype(float), b, 0.0, 0.0).all())
        elif col == "cause_index":     # only meaningful where a cause was assigned
            m = np.array([isinstance(x, str) for x in rc[t]["cause_element"]], dtype=bool)
            same = all(int(x) == int(y) for x, y in zip(a[m], np.asarray(b)[m]))
        elif col == "cause_element":
            same = all((x == y) or (not isinstance(x, str) and not isinstance(y, str)) for x, y in zip(a, b))
        else:
            same = all(bool(x) == bool(y) for x, y in zip(a, b))
        if not same or list(rt.index) != list(index):
            res.fail(prefix + "/differs-from-returned", table=t, column=col)


def in_service_flags(net):
    out = {}
    for key in sorted(k for k in net.keys() if not k.startswith("_") and not k.startswith("res_")):
        tab = net[key]
        if hasattr(tab, "columns") and "in_service" in tab.columns and len(tab):
            out[key] = (list(tab.index), [bool(x) for x in tab.in_service.values], str(tab.in_service.dtype))
    return out


def shape_labels(net0, flat, bf, over, n0vals):
    """labels describing the generated situation (measured in the evidence)"""
    labs = []
    n_ok = sum(1 for r in bf if r["status"] == "ok")
    labs.append("cases:%s" % ("0" if not flat else "1-2" if len(flat) <= 2 else "3-4" if len(flat) <= 4 else "5+"))
    if any(r["status"] == "failed" for r in bf):
        labs.append("some-case-not-converged")
    if any(r["status"] == "skipped" for r in bf):
        labs.append("case-out-of-service(skipped)")
    if flat and n_ok == 0:
        labs.append("no-case-converged")
    ins = net0.bus.in_service.values
    base = int(np.isnan(n0vals["bus"][ins]).sum()) if n0vals is not None else 0
    if any(r["status"] == "ok" and int(np.isnan(r["vals"]["bus"][ins]).sum()) > base for r in bf):
        labs.append("case-islands-buses")
    if any(v is True for v in over.values()):
        labs.append("some-case-overloads")
    if any(over[r["case"]] is False for r in bf if r["status"] == "ok"):
        labs.append("some-case-no-overload")
    kinds = sorted({t for t, _ in flat})
    for k in kinds:
        labs.append("case-type:" + k)
    if len(kinds) >= 2:
        labs.append("case-types>=2")
        if flat[0][0] != "line" and "line" in kinds:
            labs.append("order:trafo-before-line")
    return labs
